(* SerialFacts.v: the binary file format of Serial.v.
   For every structure whose fields fit their C++ types ([trie_fits], no semantic invariant needed):
     load_save / mmap_save      reading back what save wrote gives the same structure
     save_length                the size visitor (memory_in_bytes) equals the length of the file
     save_tag / load_mismatch   the 4-byte tag is the type id; a wrong variant is TypeMismatch
     load_truncated(_readfail)  every proper prefix of a file fails to load with ReadFail
     mmap_truncated             ... and is a Fault (UB) for the unchecked memory-mapped reader
     load_fits / mmap_fits      whatever is read from a byte sequence fits; resave_*, generations
     fs_*                       opening / device-limit behaviour of the file-system wrappers.
   Method: [codec_on mm r l b] (reader r consumes exactly l giving b, and ends with [short mm] on
   every proper prefix of l) is closed under rd_bind; [sound r ok] (results satisfy ok) likewise. *)
From Coq Require Import ZArith Lia ZifyN ZifyBool ZifyNat Arith PeanoNat.
From X Require Import Base Arr ArrFacts Consts BitToolsSpec BitToolsGen BitVector CompactVector Dac Tail Trie Serial.
Local Open Scope N_scope.
Ltac Zify.zify_post_hook ::= Z.div_mod_to_equations.

Arguments N.mul : simpl never.
Arguments N.add : simpl never.
Arguments N.sub : simpl never.
Arguments N.shiftl : simpl never.
Arguments N.shiftr : simpl never.
Arguments N.pow : simpl never.
Arguments N.div : simpl never.
Arguments N.modulo : simpl never.
Arguments N.land : simpl never.
Arguments N.lor : simpl never.
Arguments N.ones : simpl never.
Arguments N.testbit : simpl never.

(* ---------------- little-endian integers ---------------- *)
Definition bnd (k : nat) : N := 2 ^ (8 * N.of_nat k).

Lemma bnd_S k : bnd (S k) = 256 * bnd k.
Proof.
  unfold bnd. replace (8 * N.of_nat (S k)) with (8 + 8 * N.of_nat k) by lia.
  rewrite N.pow_add_r. reflexivity.
Qed.
Lemma bnd_0 : bnd 0 = 1. Proof. reflexivity. Qed.
Lemma bnd_pos k : 0 < bnd k.
Proof. unfold bnd. apply N.neq_0_lt_0. apply N.pow_nonzero. discriminate. Qed.

Lemma lor_shiftl8 b d : b < 256 -> N.lor b (N.shiftl d 8) = b + 256 * d.
Proof.
  intros Hb.
  assert (H0 : N.land b (N.shiftl d 8) = 0).
  { apply N.bits_inj. intros n. rewrite N.land_spec, N.bits_0.
    destruct (N.ltb_spec n 8) as [H|H].
    - rewrite N.shiftl_spec_low by exact H. apply andb_false_r.
    - replace b with (b mod 2 ^ 8) by (apply N.mod_small; exact Hb).
      rewrite N.mod_pow2_bits_high by exact H. reflexivity. }
  rewrite <- N.lxor_lor by exact H0. rewrite <- N.add_nocarry_lxor by exact H0.
  rewrite N.shiftl_mul_pow2. change (2 ^ 8) with 256. lia.
Qed.

Lemma land255 x : N.land x 255 = x mod 256.
Proof. change 255 with (N.ones 8). rewrite N.land_ones. reflexivity. Qed.
Lemma shiftr8 x : N.shiftr x 8 = x / 256.
Proof. rewrite N.shiftr_div_pow2. reflexivity. Qed.

Lemma enc_le_length k : forall x, length (enc_le k x) = k.
Proof. induction k; intros x; cbn [enc_le length]; [reflexivity|]. rewrite IHk. reflexivity. Qed.

Lemma enc_le_bytes k : forall x, Forall byte (enc_le k x).
Proof.
  induction k; intros x; cbn [enc_le]; constructor.
  - unfold byte. rewrite land255. apply N.mod_lt. discriminate.
  - apply IHk.
Qed.

Lemma dec_enc_le k : forall x, x < bnd k -> dec_le (enc_le k x) = x.
Proof.
  induction k; intros x Hx.
  - rewrite bnd_0 in Hx. cbn [enc_le dec_le]. lia.
  - rewrite bnd_S in Hx. cbn [enc_le dec_le].
    rewrite IHk by (rewrite shiftr8; lia).
    rewrite lor_shiftl8 by (rewrite land255; apply N.mod_lt; discriminate).
    rewrite land255, shiftr8. lia.
Qed.

Lemma dec_le_bound l : Forall byte l -> dec_le l < bnd (length l).
Proof.
  induction 1 as [|b t Hb Ht IH]; cbn [dec_le length].
  - rewrite bnd_0. lia.
  - rewrite bnd_S. unfold byte in Hb. rewrite lor_shiftl8 by exact Hb. lia.
Qed.

(* ---------------- take ---------------- *)
Lemma take_app l : forall rest, take (length l) (l ++ rest) = Some (l, rest).
Proof. induction l; intros rest; cbn [take length app]; [reflexivity|]. rewrite IHl. reflexivity. Qed.

Lemma take_short n : forall s, (length s < n)%nat -> take n s = None.
Proof.
  induction n; intros s H; [lia|]. destruct s as [|b t]; cbn [take]; [reflexivity|].
  cbn [length] in H. rewrite IHn by lia. reflexivity.
Qed.

Lemma take_some n : forall s a r, take n s = Some (a, r) -> s = a ++ r /\ length a = n.
Proof.
  induction n; intros s a r H; cbn [take] in H.
  - inversion H; subst. split; reflexivity.
  - destruct s as [|b t]; [discriminate|]. destruct (take n t) as [[a' r']|] eqn:E; [|discriminate].
    inversion H; subst. apply IHn in E. destruct E as [-> <-]. split; reflexivity.
Qed.

(* ---------------- codecs ---------------- *)
(* [codec_on mm r l b]: the reader [r] consumes exactly the bytes [l] (whatever follows) and returns [b];
   and on every proper prefix of [l] it ends with [short mm]: the exception ReadFail over a stream
   (mm = false), a Fault over a memory image (mm = true). *)
Definition codec_on {B} (mm : bool) (r : reader B) (l : list N) (b : B) : Prop :=
  (forall rest, r (l ++ rest) = Ok (b, rest)) /\
  (forall n, (n < length l)%nat -> r (firstn n l) = short mm).

Lemma codec_ret {B} mm (b : B) : codec_on mm (rd_ret b) [] b.
Proof. split; [reflexivity|]. intros n H. cbn in H. lia. Qed.

Lemma codec_bind {A B} mm (r1 : reader A) (f : A -> reader B) l1 l2 a b :
  codec_on mm r1 l1 a -> codec_on mm (f a) l2 b -> codec_on mm (rd_bind r1 f) (l1 ++ l2) b.
Proof.
  intros [H1 S1] [H2 S2]. split.
  - intros rest. unfold rd_bind. rewrite <- app_assoc, H1. apply H2.
  - intros n Hn. unfold rd_bind. rewrite firstn_app.
    destruct (Nat.lt_ge_cases n (length l1)) as [Hlt|Hge].
    + replace (n - length l1)%nat with 0%nat by lia. cbn [firstn]. rewrite app_nil_r.
      rewrite (S1 n Hlt). destruct mm; reflexivity.
    + rewrite firstn_all2 by exact Hge. rewrite H1. apply S2.
      rewrite app_length in Hn. lia.
Qed.

Lemma codec_bind_last {A B} mm (r1 : reader A) (g : A -> B) l1 a :
  codec_on mm r1 l1 a -> codec_on mm (rd_bind r1 (fun x => rd_ret (g x))) l1 (g a).
Proof.
  intros H. rewrite <- (app_nil_r l1). eapply codec_bind; [exact H|]. apply codec_ret.
Qed.

Lemma codec_ext {B} mm (r : reader B) l l' b b' : l = l' -> b = b' -> codec_on mm r l b -> codec_on mm r l' b'.
Proof. intros -> ->. exact (fun H => H). Qed.

Lemma codec_int mm k x : x < bnd k -> codec_on mm (rd_int mm k) (enc_le k x) x.
Proof.
  intros Hx. split.
  - intros rest. unfold rd_int. rewrite <- (enc_le_length k x) at 1. rewrite take_app.
    rewrite dec_enc_le by exact Hx. reflexivity.
  - intros n Hn. unfold rd_int. rewrite take_short.
    + reflexivity.
    + rewrite firstn_length. rewrite enc_le_length in *. lia.
Qed.

Lemma codec_raw mm n l : length l = n -> codec_on mm (rd_raw mm n) l (of_list l).
Proof.
  intros <-. split.
  - intros rest. unfold rd_raw. rewrite take_app. reflexivity.
  - intros n Hn. unfold rd_raw. rewrite take_short.
    + reflexivity.
    + rewrite firstn_length. lia.
Qed.

(* element arrays *)
Definition rd_elems (mm : bool) (w k : nat) : reader (arr N) :=
  fun s => match dec_elems w k s with
           | Some (l, r) => Ok (of_list l, r)
           | None => short mm
           end.

Lemma dec_elems_app w l : Forall (fun x => x < bnd w) l ->
  forall rest, dec_elems w (length l) (flat_map (enc_le w) l ++ rest) = Some (l, rest).
Proof.
  induction 1 as [|x t Hx Ht IH]; intros rest; cbn [dec_elems length flat_map]; [reflexivity|].
  rewrite <- app_assoc. rewrite <- (enc_le_length w x) at 1. rewrite take_app. rewrite IH.
  rewrite dec_enc_le by exact Hx. reflexivity.
Qed.

Lemma dec_elems_short w l : forall n, (n < length (flat_map (enc_le w) l))%nat ->
  dec_elems w (length l) (firstn n (flat_map (enc_le w) l)) = None.
Proof.
  induction l as [|x t IH]; intros n Hn; cbn [flat_map length] in *; [lia|].
  cbn [dec_elems]. rewrite firstn_app, enc_le_length.
  rewrite app_length, enc_le_length in Hn.
  destruct (Nat.lt_ge_cases n w) as [Hlt|Hge].
  - rewrite take_short; [reflexivity|].
    rewrite app_length, !firstn_length, enc_le_length. lia.
  - rewrite firstn_all2 by (rewrite enc_le_length; exact Hge).
    rewrite <- (enc_le_length w x) at 1. rewrite take_app. rewrite IH by lia. reflexivity.
Qed.

Lemma codec_elems mm w l : Forall (fun x => x < bnd w) l ->
  codec_on mm (rd_elems mm w (length l)) (flat_map (enc_le w) l) (of_list l).
Proof.
  intros H. split.
  - intros rest. unfold rd_elems. rewrite dec_elems_app by exact H. reflexivity.
  - intros n Hn. unfold rd_elems. rewrite dec_elems_short by exact Hn. reflexivity.
Qed.

Definition arr_fits (w : nat) (a : arr N) : Prop :=
  arr_wf a /\ alen a < 2 ^ 64 /\ Forall (fun x => x < bnd w) (alist a).

Lemma arr_wf_len {A} (a : arr A) : arr_wf a -> alen a = N.of_nat (length (alist a)).
Proof. intros H. rewrite H at 1. reflexivity. Qed.

Lemma codec_vec mm w a : arr_fits w a -> codec_on mm (rd_vec mm w) (enc_vec w a) a.
Proof.
  intros (Hwf & Hlen & Hel). unfold rd_vec, enc_vec.
  eapply codec_bind.
  - apply codec_int. exact Hlen.
  - cbv beta. rewrite (arr_wf_len a Hwf), Nat2N.id.
    eapply codec_ext; [reflexivity| |apply (codec_elems mm w (alist a) Hel)].
    symmetry. exact Hwf.
Qed.

Lemma codec_list {A} mm (r : reader A) (enc : A -> list N) l :
  (forall a, In a l -> codec_on mm r (enc a) a) ->
  codec_on mm (rd_list (length l) r) (flat_map enc l) l.
Proof.
  induction l as [|a t IH]; intros H; cbn [rd_list length flat_map].
  - apply codec_ret.
  - eapply codec_bind; [apply H; left; reflexivity|]. cbv beta.
    apply (codec_bind_last mm (rd_list (length t) r) (fun l => a :: l)).
    apply IH. intros a' Ha'. apply H. right. exact Ha'.
Qed.

Lemma codec_vecs mm ws l : Forall2 arr_fits ws l -> codec_on mm (rd_vecs mm ws) (enc_vecs ws l) l.
Proof.
  induction 1 as [|w a ws l Hwa Hrest IH]; cbn [rd_vecs enc_vecs].
  - apply codec_ret.
  - eapply codec_bind; [apply codec_vec; exact Hwa|]. cbv beta.
    apply (codec_bind_last mm (rd_vecs mm ws) (fun l => a :: l)). exact IH.
Qed.

(* ---------------- well-formedness: every field fits its C++ type ---------------- *)
Definition bv_fits (b : bitvec) : Prop :=
  bv_size b < 2 ^ 64 /\ bv_ones b < 2 ^ 64 /\
  arr_fits 8 (bv_words b) /\ arr_fits 8 (bv_rank_hints b) /\ arr_fits 8 (bv_sel_hints b).
Definition cv_fits (c : compact) : Prop :=
  cv_size c < 2 ^ 64 /\ cv_bits c < 2 ^ 64 /\ cv_mask c < 2 ^ 64 /\ arr_fits 8 (cv_chunks c).
Definition ct_fits (c : ctable) : Prop :=
  ct_maxlen c < 2 ^ 64 /\
  (arr_wf (ct_table c) /\ length (alist (ct_table c)) = 512%nat /\ Forall byte (alist (ct_table c))) /\
  arr_fits 1 (ct_alpha c).
Definition tail_fits (t : tailvec) : Prop := arr_fits 1 (tv_chars t) /\ bv_fits (tv_terms t).
Definition bc8_fits (w : N) (d : bc8) : Prop :=
  b8_w d = w /\ b8_nlev d < 2 ^ 32 /\ b8_frees d < 2 ^ 64 /\
  length (b8_ints d) = N.to_nat (64 / w) /\ Forall (arr_fits (cell_bytes8 w)) (b8_ints d) /\
  length (b8_nexts d) = (N.to_nat (64 / w) - 1)%nat /\ Forall bv_fits (b8_nexts d) /\
  cv_fits (b8_links d) /\ bv_fits (b8_leaves d).
Definition bc7_fits (vbs : list N) (d : bc7) : Prop :=
  b7_vbits d = vbs /\ b7_frees d < 2 ^ 64 /\
  Forall2 arr_fits (widths7 vbs) (b7_ints d) /\
  length (b7_ranks d) = length vbs /\ Forall (arr_fits 8) (b7_ranks d) /\
  cv_fits (b7_links d) /\ bv_fits (b7_leaves d).
Definition bc_fits (v : variant) (d : bcvec) : Prop :=
  match v, d with
  | V8, Bc8 d => bc8_fits 8 d
  | V16, Bc8 d => bc8_fits 16 d
  | V7, Bc7 d => bc7_fits (vbits_of V7) d
  | V15, Bc7 d => bc7_fits (vbits_of V15) d
  | _, _ => False
  end.
Definition trie_fits (v : variant) (P : trie) : Prop :=
  t_nkeys P < 2 ^ 64 /\ ct_fits (t_table P) /\ bv_fits (t_terms P) /\ bc_fits v (t_bc P) /\
  tail_fits (t_tail P).

Lemma bnd8 : bnd 8 = 2 ^ 64. Proof. reflexivity. Qed.
Lemma bnd4 : bnd 4 = 2 ^ 32. Proof. reflexivity. Qed.

Lemma codec_u64 mm x : x < 2 ^ 64 -> codec_on mm (rd_int mm 8) (enc_u64 x) x.
Proof. intros H. apply codec_int. rewrite bnd8. exact H. Qed.
Lemma codec_u32 mm x : x < 2 ^ 32 -> codec_on mm (rd_int mm 4) (enc_u32 x) x.
Proof. intros H. apply codec_int. rewrite bnd4. exact H. Qed.

Ltac cstep := eapply codec_bind; [ | cbv beta].

Lemma codec_bv mm b : bv_fits b -> codec_on mm (rd_bv mm) (enc_bv b) b.
Proof.
  destruct b as [sz ones ws rh sh]. unfold bv_fits, rd_bv, enc_bv. cbn [bv_size bv_ones bv_words bv_rank_hints bv_sel_hints].
  intros (H1 & H2 & H3 & H4 & H5).
  cstep. { apply codec_u64; exact H1. }
  cstep. { apply codec_u64; exact H2. }
  cstep. { apply codec_vec; exact H3. }
  cstep. { apply codec_vec; exact H4. }
  apply (codec_bind_last mm (rd_vec mm 8) (fun sh => mkBv sz ones ws rh sh)). apply codec_vec; exact H5.
Qed.

Lemma codec_cv mm c : cv_fits c -> codec_on mm (rd_cv mm) (enc_cv c) c.
Proof.
  destruct c as [sz bits mask ch]. unfold cv_fits, rd_cv, enc_cv. cbn [cv_size cv_bits cv_mask cv_chunks].
  intros (H1 & H2 & H3 & H4).
  cstep. { apply codec_u64; exact H1. }
  cstep. { apply codec_u64; exact H2. }
  cstep. { apply codec_u64; exact H3. }
  apply (codec_bind_last mm (rd_vec mm 8) (fun ch => mkCv sz bits mask ch)). apply codec_vec; exact H4.
Qed.

Lemma codec_ct mm c : ct_fits c -> codec_on mm (rd_ct mm) (enc_ct c) c.
Proof.
  destruct c as [ml tb al]. unfold ct_fits, rd_ct, enc_ct. cbn [ct_maxlen ct_table ct_alpha].
  intros (H1 & (H2 & H3 & _) & H4).
  cstep. { apply codec_u64; exact H1. }
  cstep. { eapply codec_ext; [reflexivity| |apply (codec_raw mm 512 (alist tb) H3)]. symmetry; exact H2. }
  apply (codec_bind_last mm (rd_vec mm 1) (fun al => mkCt ml tb al)). apply codec_vec; exact H4.
Qed.

Lemma codec_tail mm t : tail_fits t -> codec_on mm (rd_tail mm) (enc_tail t) t.
Proof.
  destruct t as [ch tm]. unfold tail_fits, rd_tail, enc_tail. cbn [tv_chars tv_terms].
  intros (H1 & H2).
  cstep. { apply codec_vec; exact H1. }
  apply (codec_bind_last mm (rd_bv mm) (fun tm => mkTail ch tm)). apply codec_bv; exact H2.
Qed.

Lemma codec_bc8 mm w d : bc8_fits w d -> codec_on mm (rd_bc8 mm w) (enc_bc8 d) d.
Proof.
  destruct d as [w' nlev frees ints nexts links lv]. unfold bc8_fits, rd_bc8, enc_bc8.
  cbn [b8_w b8_nlev b8_frees b8_ints b8_nexts b8_links b8_leaves].
  intros (-> & H1 & H2 & L3 & H3 & L4 & H4 & H5 & H6).
  cstep. { apply codec_u32; exact H1. }
  cstep. { apply codec_u64; exact H2. }
  cstep. { rewrite <- L3. apply codec_list. intros a Ha. apply codec_vec.
           rewrite Forall_forall in H3. apply H3; exact Ha. }
  cstep. { rewrite <- L4. apply codec_list. intros a Ha. apply codec_bv.
           rewrite Forall_forall in H4. apply H4; exact Ha. }
  cstep. { apply codec_cv; exact H5. }
  apply (codec_bind_last mm (rd_bv mm) (fun lv => mkBc8 w nlev frees ints nexts links lv)).
  apply codec_bv; exact H6.
Qed.

Lemma codec_bc7 mm vbs d : bc7_fits vbs d -> codec_on mm (rd_bc7 mm vbs) (enc_bc7 d) d.
Proof.
  destruct d as [vbs' frees ints ranks links lv]. unfold bc7_fits, rd_bc7, enc_bc7.
  cbn [b7_vbits b7_frees b7_ints b7_ranks b7_links b7_leaves].
  intros (-> & H1 & H2 & L3 & H3 & H4 & H5).
  cstep. { apply codec_u64; exact H1. }
  cstep. { apply codec_vecs; exact H2. }
  cstep. { rewrite <- L3. apply codec_list. intros a Ha. apply codec_vec.
           rewrite Forall_forall in H3. apply H3; exact Ha. }
  cstep. { apply codec_cv; exact H4. }
  apply (codec_bind_last mm (rd_bv mm) (fun lv => mkBc7 vbs frees ints ranks links lv)).
  apply codec_bv; exact H5.
Qed.

Lemma codec_bc mm v d : bc_fits v d -> codec_on mm (rd_bc mm v) (enc_bc d) d.
Proof.
  intros H. destruct v, d as [d|d]; cbn [bc_fits] in H; try contradiction; cbn [rd_bc enc_bc].
  - apply (codec_bind_last mm (rd_bc7 mm (vbits_of V7)) Bc7). apply codec_bc7; exact H.
  - apply (codec_bind_last mm (rd_bc8 mm 8) Bc8). apply codec_bc8; exact H.
  - apply (codec_bind_last mm (rd_bc7 mm (vbits_of V15)) Bc7). apply codec_bc7; exact H.
  - apply (codec_bind_last mm (rd_bc8 mm 16) Bc8). apply codec_bc8; exact H.
Qed.

Lemma codec_trie mm v P : trie_fits v P -> codec_on mm (rd_trie mm v) (enc_trie P) P.
Proof.
  destruct P as [nk ct tm bc tl]. unfold trie_fits, rd_trie, enc_trie. cbn [t_nkeys t_table t_terms t_bc t_tail].
  intros (H1 & H2 & H3 & H4 & H5).
  cstep. { apply codec_u64; exact H1. }
  cstep. { apply codec_ct; exact H2. }
  cstep. { apply codec_bv; exact H3. }
  cstep. { apply codec_bc; exact H4. }
  apply (codec_bind_last mm (rd_tail mm) (fun tl => mkTrie nk ct tm bc tl)). apply codec_tail; exact H5.
Qed.

Lemma type_id_lt v : type_id v < 2 ^ 32.
Proof. destruct v; vm_compute; reflexivity. Qed.

Lemma codec_file mm v P : trie_fits v P -> codec_on mm (rd_file mm v) (save v P) P.
Proof.
  intros H. unfold rd_file, save.
  cstep. { apply codec_u32. apply type_id_lt. }
  rewrite N.eqb_refl. apply codec_trie; exact H.
Qed.

(* ---------------- goals 1, 2, 6 ---------------- *)
Theorem load_save : forall v P, trie_fits v P -> load v (save v P) = Ok P.
Proof.
  intros v P H. destruct (codec_file false v P H) as [Hok _]. unfold load.
  rewrite <- (app_nil_r (save v P)), Hok. reflexivity.
Qed.

Theorem mmap_save : forall v P r, trie_fits v P -> mmap v (save v P ++ r) = Ok P.
Proof.
  intros v P r H. destruct (codec_file true v P H) as [Hok _]. unfold mmap. rewrite Hok. reflexivity.
Qed.

Theorem load_save_trailing : forall v P r, trie_fits v P -> load v (save v P ++ r) = Ok P.
Proof.
  intros v P r H. destruct (codec_file false v P H) as [Hok _]. unfold load. rewrite Hok. reflexivity.
Qed.

Theorem load_truncated_readfail : forall v P n, trie_fits v P -> (n < length (save v P))%nat ->
  load v (firstn n (save v P)) = Exc ReadFail.
Proof.
  intros v P n H Hn. destruct (codec_file false v P H) as [_ Hs]. unfold load.
  rewrite (Hs n Hn). reflexivity.
Qed.

Theorem load_truncated : forall v P n, trie_fits v P -> (n < length (save v P))%nat ->
  exists e, load v (firstn n (save v P)) = Exc e.
Proof. intros v P n H Hn. exists ReadFail. apply load_truncated_readfail; assumption. Qed.

(* the memory-mapped reader has no length to check: on a truncated image it leaves defined behaviour *)
Theorem mmap_truncated : forall v P n, trie_fits v P -> (n < length (save v P))%nat ->
  mmap v (firstn n (save v P)) = Fault OobArr.
Proof.
  intros v P n H Hn. destruct (codec_file true v P H) as [_ Hs]. unfold mmap.
  rewrite (Hs n Hn). reflexivity.
Qed.

(* ---------------- goal 4: the tag ---------------- *)
Theorem save_tag : forall v P,
  firstn 4 (save v P) = enc_u32 (type_id v) /\ get_type_id (save v P) = Ok (type_id v).
Proof.
  intros v P. split.
  - unfold save. rewrite firstn_app. unfold enc_u32. rewrite enc_le_length.
    rewrite firstn_all2 by (rewrite enc_le_length; lia). cbn [Nat.sub firstn]. apply app_nil_r.
  - unfold get_type_id, save. destruct (codec_u32 false (type_id v) (type_id_lt v)) as [Hok _].
    rewrite Hok. reflexivity.
Qed.

(* ---------------- goal 5: loading with the wrong variant ---------------- *)
Lemma type_id_inj a b : type_id a = type_id b -> a = b.
Proof. destruct a, b; intros H; try reflexivity; vm_compute in H; discriminate. Qed.

Lemma rd_file_mismatch mm a b P : a <> b -> rd_file mm b (save a P) = Exc TypeMismatch.
Proof.
  intros Hne. unfold rd_file, save, rd_bind.
  destruct (codec_u32 mm (type_id a) (type_id_lt a)) as [Hok _]. rewrite Hok.
  destruct (N.eqb_spec (type_id a) (type_id b)) as [E|E]; [|reflexivity].
  exfalso. apply Hne. apply type_id_inj. exact E.
Qed.

Theorem load_mismatch : forall a b P, a <> b ->
  load b (save a P) = Exc TypeMismatch /\ mmap b (save a P) = Exc TypeMismatch.
Proof.
  intros a b P Hne. unfold load, mmap. rewrite !rd_file_mismatch by exact Hne. split; reflexivity.
Qed.

(* ---------------- goal 3: the size visitor agrees with the save visitor ---------------- *)
Lemma lenN_app {A} (a b : list A) : lenN (a ++ b) = lenN a + lenN b.
Proof. unfold lenN. rewrite app_length. lia. Qed.
Lemma lenN_enc_le k x : lenN (enc_le k x) = N.of_nat k.
Proof. unfold lenN. rewrite enc_le_length. reflexivity. Qed.
Lemma lenN_u64 x : lenN (enc_u64 x) = 8. Proof. apply lenN_enc_le. Qed.
Lemma lenN_u32 x : lenN (enc_u32 x) = 4. Proof. apply lenN_enc_le. Qed.
Lemma lenN_flat_map {A} (f : A -> list N) l : lenN (flat_map f l) = sumN (map (fun a => lenN (f a)) l).
Proof.
  induction l as [|a t IH]; cbn [flat_map map sumN fold_right]; [reflexivity|].
  rewrite lenN_app, IH. reflexivity.
Qed.
Lemma sumN_const c l : sumN (map (fun _ : N => c) l) = c * lenN l.
Proof.
  induction l as [|a t IH]; cbn [map sumN fold_right]; [unfold lenN; cbn [length]; lia|].
  fold (sumN (map (fun _ : N => c) t)). rewrite IH. unfold lenN. cbn [length]. lia.
Qed.
Lemma sumN_ext {A} (f g : A -> N) l : (forall a, In a l -> f a = g a) -> sumN (map f l) = sumN (map g l).
Proof. intros H. f_equal. apply map_ext_in. exact H. Qed.

Lemma len_vec w a : arr_wf a -> lenN (enc_vec w a) = size_vec (N.of_nat w) a.
Proof.
  intros Hwf. unfold enc_vec, size_vec. rewrite lenN_app, lenN_u64, lenN_flat_map.
  rewrite (sumN_ext _ (fun _ => N.of_nat w)) by (intros; apply lenN_enc_le).
  rewrite sumN_const. rewrite (arr_wf_len a Hwf). reflexivity.
Qed.
Lemma len_vec_fits w a : arr_fits w a -> lenN (enc_vec w a) = size_vec (N.of_nat w) a.
Proof. intros [H _]. apply len_vec; exact H. Qed.

Lemma len_bv b : bv_fits b -> lenN (enc_bv b) = size_bv b.
Proof.
  intros (_ & _ & H3 & H4 & H5). unfold enc_bv, size_bv.
  rewrite !lenN_app, !lenN_u64, !len_vec_fits by assumption. change (N.of_nat 8) with 8. lia.
Qed.
Lemma len_cv c : cv_fits c -> lenN (enc_cv c) = size_cv c.
Proof.
  intros (_ & _ & _ & H4). unfold enc_cv, size_cv.
  rewrite !lenN_app, !lenN_u64, !len_vec_fits by assumption. change (N.of_nat 8) with 8. lia.
Qed.
Lemma len_ct c : ct_fits c -> lenN (enc_ct c) = 8 + 512 + size_vec 1 (ct_alpha c).
Proof.
  intros (_ & (_ & H2 & _) & H3). unfold enc_ct.
  rewrite !lenN_app, !lenN_u64, !len_vec_fits by assumption. unfold lenN at 1. rewrite H2.
  change (N.of_nat 1) with 1. change (N.of_nat 512) with 512. lia.
Qed.
Lemma len_tail t : tail_fits t -> lenN (enc_tail t) = size_vec 1 (tv_chars t) + size_bv (tv_terms t).
Proof.
  intros (H1 & H2). unfold enc_tail. rewrite lenN_app, len_vec_fits, len_bv by assumption. reflexivity.
Qed.
Lemma len_vecs ws l : Forall2 arr_fits ws l ->
  lenN (enc_vecs ws l) = sumN (map (fun wa => size_vec (N.of_nat (fst wa)) (snd wa)) (combine ws l)).
Proof.
  induction 1 as [|w a ws l Hwa Hrest IH]; cbn [enc_vecs combine map sumN fold_right]; [reflexivity|].
  rewrite lenN_app, IH, len_vec_fits by exact Hwa. reflexivity.
Qed.
Lemma len_bc v d : bc_fits v d -> lenN (enc_bc d) = size_bc d.
Proof.
  assert (H8 : forall w d, w = 8 \/ w = 16 -> bc8_fits w d -> lenN (enc_bc8 d) = size_bc (Bc8 d)).
  { intros w d0 Hw (E & _ & _ & _ & H3 & _ & H4 & H5 & H6). unfold enc_bc8, size_bc. rewrite E.
    rewrite !lenN_app, lenN_u32, lenN_u64, !lenN_flat_map, len_cv, len_bv by assumption.
    rewrite Forall_forall in H3, H4.
    rewrite (sumN_ext _ (size_vec (w / 8)) (b8_ints d0)).
    2:{ intros a Ha. rewrite len_vec_fits by (apply H3; exact Ha). unfold cell_bytes8. rewrite N2Nat.id. reflexivity. }
    rewrite (sumN_ext _ size_bv (b8_nexts d0)) by (intros a Ha; apply len_bv, H4, Ha).
    lia. }
  assert (H7 : forall vbs d, bc7_fits vbs d -> lenN (enc_bc7 d) = size_bc (Bc7 d)).
  { intros vbs d0 (E & _ & H2 & _ & H3 & H4 & H5). unfold enc_bc7, size_bc. rewrite E.
    rewrite !lenN_app, lenN_u64, lenN_flat_map, len_vecs, len_cv, len_bv by assumption.
    rewrite Forall_forall in H3.
    rewrite (sumN_ext _ (size_vec 8) (b7_ranks d0)) by (intros a Ha; apply (len_vec_fits 8), H3, Ha).
    lia. }
  intros H. destruct v, d as [d|d]; cbn [bc_fits] in H; try contradiction; cbn [enc_bc].
  - eapply H7; exact H.
  - eapply H8; [left; reflexivity|exact H].
  - eapply H7; exact H.
  - eapply H8; [right; reflexivity|exact H].
Qed.

Theorem save_length : forall v P, trie_fits v P -> lenN (save v P) = memory_in_bytes v P.
Proof.
  intros v P (_ & H2 & H3 & H4 & H5). unfold save, enc_trie, memory_in_bytes.
  rewrite !lenN_app, lenN_u32, lenN_u64, len_ct, len_bv, (len_bc v), len_tail by assumption. lia.
Qed.

(* ---------------- goal 8: files and devices ---------------- *)
Theorem fs_save_spec : forall v P target l,
  (target <> NoParent -> target <> Dir ->
     fs_save v P target (Some l) =
       if l <? lenN (save v P) then Exc WriteFail else Ok (lenN (save v P), save v P)) /\
  (target = NoParent \/ target = Dir -> forall lim, fs_save v P target lim = Exc OpenFail).
Proof.
  intros v P target l. split.
  - intros H1 H2. destruct target; try contradiction; reflexivity.
  - intros [-> | ->] lim; reflexivity.
Qed.

Theorem fs_save_limit : forall v P target l, target <> NoParent -> target <> Dir ->
  (l < lenN (save v P) -> fs_save v P target (Some l) = Exc WriteFail) /\
  (lenN (save v P) <= l -> fs_save v P target (Some l) = Ok (lenN (save v P), save v P)).
Proof.
  intros v P target l H1 H2. destruct (fs_save_spec v P target l) as [E _]. rewrite (E H1 H2).
  split; intros H.
  - apply N.ltb_lt in H. rewrite H. reflexivity.
  - apply N.ltb_ge in H. rewrite H. reflexivity.
Qed.

Theorem fs_save_unlimited : forall v P target, target <> NoParent -> target <> Dir ->
  fs_save v P target None = Ok (lenN (save v P), save v P).
Proof. intros v P target H1 H2. destruct target; try contradiction; reflexivity. Qed.

Theorem fs_open_fail : forall v n, n = Missing \/ n = NoParent \/ n = Dir ->
  fs_load v n = Exc OpenFail /\ fs_type_id n = Exc OpenFail.
Proof. intros v n [-> | [-> | ->]]; split; reflexivity. Qed.

(* a saved file read back through the file system *)
Theorem fs_save_load : forall v P target lim b n, trie_fits v P ->
  fs_save v P target lim = Ok (n, b) ->
  n = memory_in_bytes v P /\ fs_load v (File b) = Ok P /\ fs_type_id (File b) = Ok (type_id v).
Proof.
  intros v P target lim b n Hf H.
  assert (E : n = lenN (save v P) /\ b = save v P).
  { unfold fs_save in H. destruct target; try discriminate; destruct lim as [l|];
      try (destruct (l <? lenN (save v P)); try discriminate); inversion H; split; reflexivity. }
  destruct E as [-> ->]. split; [apply save_length; exact Hf|]. split.
  - apply load_save; exact Hf.
  - apply save_tag.
Qed.

(* ---------------- goal 7: whatever the loader accepts fits ---------------- *)
(* the input is a sequence of bytes *)
Definition sound {A} (r : reader A) (ok : A -> Prop) : Prop :=
  forall s a s', Forall byte s -> r s = Ok (a, s') -> ok a /\ Forall byte s'.

Lemma sound_ret {A} (a : A) (ok : A -> Prop) : ok a -> sound (rd_ret a) ok.
Proof. intros H s a' s' Hs E. unfold rd_ret in E. inversion E; subst. split; assumption. Qed.

Lemma sound_bind {A B} (r1 : reader A) (f : A -> reader B) (ok1 : A -> Prop) (ok2 : B -> Prop) :
  sound r1 ok1 -> (forall a, ok1 a -> sound (f a) ok2) -> sound (rd_bind r1 f) ok2.
Proof.
  intros H1 H2 s b s' Hs E. unfold rd_bind in E.
  destruct (r1 s) as [[a s1]|e|x] eqn:E1; try discriminate.
  destruct (H1 s a s1 Hs E1) as [Ha Hs1]. exact (H2 a Ha s1 b s' Hs1 E).
Qed.

Lemma sound_weaken {A} (r : reader A) (ok ok' : A -> Prop) :
  (forall a, ok a -> ok' a) -> sound r ok -> sound r ok'.
Proof. intros H Hr s a s' Hs E. destruct (Hr s a s' Hs E). split; auto. Qed.

Lemma short_not_ok {A} mm (x : A) : short mm <> Ok x.
Proof. destruct mm; discriminate. Qed.

Lemma sound_int mm k : sound (rd_int mm k) (fun x => x < bnd k).
Proof.
  intros s a s' Hs E. unfold rd_int in E.
  destruct (take k s) as [[l r]|] eqn:T; [|exfalso; exact (short_not_ok mm _ E)].
  inversion E; subst. apply take_some in T. destruct T as [-> <-].
  apply Forall_app in Hs. destruct Hs as [Hl Hr]. split; [apply dec_le_bound; exact Hl|exact Hr].
Qed.

Lemma sound_raw mm n :
  sound (rd_raw mm n) (fun a => arr_wf a /\ length (alist a) = n /\ Forall byte (alist a)).
Proof.
  intros s a s' Hs E. unfold rd_raw in E.
  destruct (take n s) as [[l r]|] eqn:T; [|exfalso; exact (short_not_ok mm _ E)].
  inversion E; subst. apply take_some in T. destruct T as [-> <-].
  apply Forall_app in Hs. destruct Hs as [Hl Hr]. split; [|exact Hr].
  split; [apply arr_wf_of_list|]. split; [reflexivity|exact Hl].
Qed.

Lemma dec_elems_some w k : forall s l r, Forall byte s -> dec_elems w k s = Some (l, r) ->
  length l = k /\ Forall (fun x => x < bnd w) l /\ Forall byte r.
Proof.
  induction k; intros s l r Hs E; cbn [dec_elems] in E.
  - inversion E; subst. split; [reflexivity|]. split; [constructor|exact Hs].
  - destruct (take w s) as [[a s1]|] eqn:T; [|discriminate].
    destruct (dec_elems w k s1) as [[l1 r1]|] eqn:D; [|discriminate].
    inversion E; subst. apply take_some in T. destruct T as [-> <-].
    apply Forall_app in Hs. destruct Hs as [Ha Hs1].
    destruct (IHk s1 l1 r Hs1 D) as (L & F & R). split; [cbn [length]; rewrite L; reflexivity|].
    split; [|exact R]. constructor; [apply dec_le_bound; exact Ha|exact F].
Qed.

Lemma sound_vec mm w : sound (rd_vec mm w) (arr_fits w).
Proof.
  unfold rd_vec. eapply sound_bind; [apply sound_int|]. intros n Hn s a s' Hs E.
  destruct (dec_elems w (N.to_nat n) s) as [[l r]|] eqn:D; [|exfalso; exact (short_not_ok mm _ E)].
  inversion E; subst. destruct (dec_elems_some w _ s l s' Hs D) as (L & F & R).
  split; [|exact R]. split; [apply arr_wf_of_list|]. split; [|exact F].
  rewrite alen_of_list, L, N2Nat.id. rewrite bnd8 in Hn. exact Hn.
Qed.

Lemma sound_list {A} (r : reader A) (ok : A -> Prop) : sound r ok ->
  forall n, sound (rd_list n r) (fun l => length l = n /\ Forall ok l).
Proof.
  intros Hr. induction n; cbn [rd_list].
  - apply sound_ret. split; [reflexivity|constructor].
  - eapply sound_bind; [exact Hr|]. intros a Ha.
    eapply sound_bind; [exact IHn|]. intros l [L F].
    apply sound_ret. split; [cbn [length]; rewrite L; reflexivity|constructor; assumption].
Qed.

Lemma sound_vecs mm ws : sound (rd_vecs mm ws) (fun l => Forall2 arr_fits ws l).
Proof.
  induction ws as [|w ws IH]; cbn [rd_vecs].
  - apply sound_ret. constructor.
  - eapply sound_bind; [apply sound_vec|]. intros a Ha.
    eapply sound_bind; [exact IH|]. intros l Hl.
    apply sound_ret. constructor; assumption.
Qed.

Lemma sound_u64 mm : sound (rd_int mm 8) (fun x => x < 2 ^ 64).
Proof. apply (sound_int mm 8). Qed.
Lemma sound_u32 mm : sound (rd_int mm 4) (fun x => x < 2 ^ 32).
Proof. apply (sound_int mm 4). Qed.

Ltac sstep lem := eapply sound_bind; [apply lem|]; intros ? ?; cbv beta in *.

Lemma sound_bv mm : sound (rd_bv mm) bv_fits.
Proof.
  unfold rd_bv. sstep sound_u64. sstep sound_u64. sstep sound_vec. sstep sound_vec. sstep sound_vec.
  apply sound_ret. unfold bv_fits; cbn [bv_size bv_ones bv_words bv_rank_hints bv_sel_hints]. tauto.
Qed.
Lemma sound_cv mm : sound (rd_cv mm) cv_fits.
Proof.
  unfold rd_cv. sstep sound_u64. sstep sound_u64. sstep sound_u64. sstep sound_vec.
  apply sound_ret. unfold cv_fits; cbn [cv_size cv_bits cv_mask cv_chunks]. tauto.
Qed.
Lemma sound_ct mm : sound (rd_ct mm) ct_fits.
Proof.
  unfold rd_ct. sstep sound_u64. sstep sound_raw. sstep sound_vec.
  apply sound_ret. unfold ct_fits; cbn [ct_maxlen ct_table ct_alpha]. tauto.
Qed.
Lemma sound_tail mm : sound (rd_tail mm) tail_fits.
Proof.
  unfold rd_tail. sstep sound_vec. sstep sound_bv.
  apply sound_ret. unfold tail_fits; cbn [tv_chars tv_terms]. tauto.
Qed.
Lemma sound_bc8 mm w : sound (rd_bc8 mm w) (bc8_fits w).
Proof.
  unfold rd_bc8. sstep sound_u32. sstep sound_u64.
  eapply sound_bind; [apply sound_list; apply sound_vec|]; intros ints [L1 F1].
  eapply sound_bind; [apply sound_list; apply sound_bv|]; intros nexts [L2 F2].
  sstep sound_cv. sstep sound_bv.
  apply sound_ret. unfold bc8_fits; cbn [b8_w b8_nlev b8_frees b8_ints b8_nexts b8_links b8_leaves]. tauto.
Qed.
Lemma sound_bc7 mm vbs : sound (rd_bc7 mm vbs) (bc7_fits vbs).
Proof.
  unfold rd_bc7. sstep sound_u64. sstep sound_vecs.
  eapply sound_bind; [apply sound_list; apply sound_vec|]; intros ranks [L1 F1].
  sstep sound_cv. sstep sound_bv.
  apply sound_ret. unfold bc7_fits; cbn [b7_vbits b7_frees b7_ints b7_ranks b7_links b7_leaves]. tauto.
Qed.
Lemma sound_bc mm v : sound (rd_bc mm v) (bc_fits v).
Proof.
  destruct v; cbn [rd_bc].
  - sstep sound_bc7. apply sound_ret. assumption.
  - sstep sound_bc8. apply sound_ret. assumption.
  - sstep sound_bc7. apply sound_ret. assumption.
  - sstep sound_bc8. apply sound_ret. assumption.
Qed.
Lemma sound_trie mm v : sound (rd_trie mm v) (trie_fits v).
Proof.
  unfold rd_trie. sstep sound_u64. sstep sound_ct. sstep sound_bv. sstep sound_bc. sstep sound_tail.
  apply sound_ret. unfold trie_fits; cbn [t_nkeys t_table t_terms t_bc t_tail]. tauto.
Qed.
Lemma sound_file mm v : sound (rd_file mm v) (trie_fits v).
Proof.
  unfold rd_file. sstep sound_u32. destruct (a =? type_id v).
  - apply sound_trie.
  - intros s P s' _ E. discriminate.
Qed.

(* NOTE: the premise [Forall byte b] (the file is a sequence of bytes) is necessary: the model's
   [list N] admits elements >= 256, and e.g. the raw 512-entry table is copied from them unchanged. *)
Theorem load_fits : forall v b P, Forall byte b -> load v b = Ok P -> trie_fits v P.
Proof.
  intros v b P Hb E. unfold load in E.
  destruct (rd_file false v b) as [[P' s']|e|x] eqn:R; try discriminate. inversion E; subst.
  exact (proj1 (sound_file false v b P s' Hb R)).
Qed.
Theorem mmap_fits : forall v b P, Forall byte b -> mmap v b = Ok P -> trie_fits v P.
Proof.
  intros v b P Hb E. unfold mmap in E.
  destruct (rd_file true v b) as [[P' s']|e|x] eqn:R; try discriminate. inversion E; subst.
  exact (proj1 (sound_file true v b P s' Hb R)).
Qed.

(* the saved file is a sequence of bytes *)
Lemma flat_map_bytes {A} (f : A -> list N) l : (forall a, In a l -> Forall byte (f a)) -> Forall byte (flat_map f l).
Proof.
  induction l as [|a t IH]; intros H; cbn [flat_map]; [constructor|].
  apply Forall_app. split; [apply H; left; reflexivity|]. apply IH. intros a' Ha'. apply H. right; exact Ha'.
Qed.
Lemma enc_vec_bytes w a : Forall byte (enc_vec w a).
Proof.
  unfold enc_vec. apply Forall_app. split; [apply enc_le_bytes|].
  apply flat_map_bytes. intros; apply enc_le_bytes.
Qed.
Ltac bytes0 := first [apply enc_le_bytes | apply enc_vec_bytes].
Lemma enc_bv_bytes b : Forall byte (enc_bv b).
Proof. unfold enc_bv. repeat first [bytes0 | apply Forall_app; split]. Qed.
Lemma enc_cv_bytes c : Forall byte (enc_cv c).
Proof. unfold enc_cv. repeat first [bytes0 | apply Forall_app; split]. Qed.
Lemma enc_vecs_bytes ws : forall l, Forall byte (enc_vecs ws l).
Proof.
  induction ws as [|w ws IH]; intros l; cbn [enc_vecs]; [constructor|].
  destruct l as [|a l]; [constructor|].
  apply Forall_app. split; [apply enc_vec_bytes|apply IH].
Qed.
Ltac bytes1 := first [bytes0 | apply enc_bv_bytes | apply enc_cv_bytes | apply enc_vecs_bytes
                     | apply flat_map_bytes; intros ? _ ].
Lemma enc_bc_bytes d : Forall byte (enc_bc d).
Proof.
  destruct d as [d|d]; cbn [enc_bc]; [unfold enc_bc8|unfold enc_bc7];
    repeat first [bytes1 | apply Forall_app; split].
Qed.
Theorem save_bytes : forall v P, Forall byte (alist (ct_table (t_table P))) -> Forall byte (save v P).
Proof.
  intros v P H. unfold save, enc_trie, enc_ct, enc_tail.
  repeat first [exact H | bytes1 | apply enc_bc_bytes | apply Forall_app; split].
Qed.
Corollary save_bytes_fits : forall v P, trie_fits v P -> Forall byte (save v P).
Proof. intros v P (_ & (_ & (_ & _ & H) & _) & _). apply save_bytes; exact H. Qed.

(* re-saving what was loaded reproduces the file, for any number of generations *)
Corollary resave_load : forall v P P', trie_fits v P -> load v (save v P) = Ok P' -> save v P' = save v P.
Proof. intros v P P' H E. rewrite (load_save v P H) in E. inversion E; reflexivity. Qed.
Corollary resave_mmap : forall v P P' r, trie_fits v P -> mmap v (save v P ++ r) = Ok P' -> save v P' = save v P.
Proof. intros v P P' r H E. rewrite (mmap_save v P r H) in E. inversion E; reflexivity. Qed.

(* starting from an arbitrary byte file: load, then save/load again gives the same structure *)
Corollary load_save_load : forall v b P, Forall byte b -> load v b = Ok P ->
  load v (save v P) = Ok P /\ mmap v (save v P) = Ok P.
Proof.
  intros v b P Hb E. pose proof (load_fits v b P Hb E) as Hf. split; [apply load_save; exact Hf|].
  rewrite <- (app_nil_r (save v P)). apply mmap_save; exact Hf.
Qed.

Fixpoint generation (v : variant) (n : nat) (P : trie) : res (trie * list N) :=
  match n with
  | O => Ok (P, save v P)
  | S m => match load v (save v P) with
           | Ok P' => generation v m P'
           | Exc e => Exc e
           | Fault f => Fault f
           end
  end.
Theorem generations : forall v n P, trie_fits v P -> generation v n P = Ok (P, save v P).
Proof.
  intros v n P H. induction n; cbn [generation]; [reflexivity|]. rewrite (load_save v P H). exact IHn.
Qed.

Theorem save_inj : forall v P P', trie_fits v P -> trie_fits v P' -> save v P = save v P' -> P = P'.
Proof.
  intros v P P' H H' E. pose proof (load_save v P H) as L. rewrite E, (load_save v P' H') in L.
  inversion L; reflexivity.
Qed.

(* The premise [Forall byte b] of load_fits cannot be dropped: a "file" whose 13th element is 256 loads. *)
Definition bad_table_trie : trie :=
  mkTrie 0 (mkCt 0 (of_list (256 :: repeat 0 511)) aempty) bv_empty
         (Bc8 (mkBc8 8 0 0 (repeat aempty 8) (repeat bv_empty 7) cv_empty bv_empty)) tv_empty.
Lemma load_fits_needs_bytes : exists b P, load V8 b = Ok P /\ ~ trie_fits V8 P.
Proof.
  exists (save V8 bad_table_trie), bad_table_trie. split.
  - vm_compute. reflexivity.
  - intros (_ & (_ & (_ & _ & H) & _) & _).
    change (Forall byte (256 :: repeat 0 511)) in H. apply Forall_inv in H. unfold byte in H. lia.
Qed.

Print Assumptions load_save.
Print Assumptions mmap_save.
Print Assumptions save_length.
Print Assumptions save_tag.
Print Assumptions load_mismatch.
Print Assumptions load_truncated.
Print Assumptions load_truncated_readfail.
Print Assumptions mmap_truncated.
Print Assumptions load_fits.
Print Assumptions mmap_fits.
Print Assumptions save_bytes_fits.
Print Assumptions resave_load.
Print Assumptions resave_mmap.
Print Assumptions load_save_load.
Print Assumptions generations.
Print Assumptions save_inj.
Print Assumptions fs_save_spec.
Print Assumptions fs_save_limit.
Print Assumptions fs_save_unlimited.
Print Assumptions fs_open_fail.
Print Assumptions fs_save_load.
Print Assumptions load_fits_needs_bytes.
