(* Spec.v: the abstract dictionary. Readable in minutes; no reference to the implementation model. *)
From X Require Import Base.
Local Open Scope N_scope.

(* unsigned-byte lexicographic order *)
Fixpoint lex_lt (a b : key) : bool :=
  match a, b with
  | _, [] => false
  | [], _ :: _ => true
  | x :: a', y :: b' => if x <? y then true else if y <? x then false else lex_lt a' b'
  end.
Fixpoint key_eqb (a b : key) : bool :=
  match a, b with
  | [], [] => true
  | x :: a', y :: b' => (x =? y) && key_eqb a' b'
  | _, _ => false
  end.
Fixpoint strictly_sorted (K : list key) : bool :=
  match K with
  | a :: ((b :: _) as t) => lex_lt a b && strictly_sorted t
  | _ => true
  end.
Definition bytes_ok (k : key) : bool := forallb (fun b => b <? 256) k.
Definition valid_keys (K : list key) : bool :=
  match K with [] => false | _ => strictly_sorted K && forallb bytes_ok K end.

Fixpoint is_prefixb (p s : key) : bool :=
  match p, s with
  | [], _ => true
  | x :: p', y :: s' => (x =? y) && is_prefixb p' s'
  | _ :: _, [] => false
  end.

Definition spec_member (K : list key) (q : key) : bool := existsb (key_eqb q) K.
Definition spec_prefixes (K : list key) (q : key) : list key := filter (fun k => is_prefixb k q) K.
Definition spec_completions (K : list key) (q : key) : list key := filter (fun k => is_prefixb q k) K.

(* statistics *)
Definition spec_max_length (K : list key) : N := fold_right (fun k m => N.max (N.of_nat (length k)) m) 0 K.
Definition occurs (b : N) (K : list key) : bool := existsb (existsb (N.eqb b)) K.
Definition spec_alphabet (K : list key) : list N :=
  filter (fun b => occurs b K) (map N.of_nat (seq 0 256)).
Definition spec_bin_mode (req : bool) (K : list key) : bool := req || occurs 0 K.

(* number of nodes of the minimal-prefix trie of K: the root, plus one node for every
   non-empty prefix p.c of a key such that at least two keys start with p *)
Definition count_with_prefix (K : list key) (p : key) : nat := length (filter (is_prefixb p) K).
Fixpoint prefixes_of (k : key) : list key :=      (* all non-empty prefixes *)
  match k with [] => [] | c :: t => [c] :: map (cons c) (prefixes_of t) end.
Fixpoint dedup (l : list key) : list key :=
  match l with [] => [] | x :: t => if existsb (key_eqb x) t then dedup t else x :: dedup t end.
Definition spec_mp_nodes (K : list key) : N :=
  1 + N.of_nat (length (filter (fun p => Nat.leb 2 (count_with_prefix K (removelast p)))
                               (dedup (concat (map prefixes_of K))))).

(* IDs: some bijection between K and [0, |K|) *)
Definition id_assignment (K : list key) (f : key -> option N) : Prop :=
  (forall k, In k K <-> exists i, f k = Some i) /\
  (forall k i, f k = Some i -> i < N.of_nat (length K)) /\
  (forall k k' i, f k = Some i -> f k' = Some i -> k = k').
