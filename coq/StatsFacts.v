(* StatsFacts.v: the reported statistics describe the key set (StatsSpec), given PhysSpec. *)
From Coq Require Import FMapPositive Lia ZifyN ZifyBool ZifyNat Permutation Arith PeanoNat.
From Coq Require FinFun.
From X Require Import Base Arr ArrFacts Consts BitToolsSpec BitToolsGen BitVector CompactVector Dac Tail Trie
                      Spec Iface IfaceDac Wf IfaceQuery.
Local Open Scope N_scope.

(* ---------------------------------------------------------------- *)
(* small list facts                                                  *)
(* ---------------------------------------------------------------- *)
Lemma list_eqb_N_eq : forall a b, list_eqb N.eqb a b = true -> a = b.
Proof.
  induction a as [|x a IH]; destruct b as [|y b]; cbn [list_eqb]; intros H; try discriminate; auto.
  apply andb_prop in H. destruct H as [H1 H2]. apply N.eqb_eq in H1. subst. f_equal. auto.
Qed.

Lemma key_eqb_eq : forall a b, key_eqb a b = true <-> a = b.
Proof.
  induction a as [|x a IH]; destruct b as [|y b]; cbn [key_eqb]; split; intros H; try discriminate; auto.
  - apply andb_prop in H. destruct H as [H1 H2]. apply N.eqb_eq in H1. apply IH in H2. subst. reflexivity.
  - inversion H; subst. rewrite N.eqb_refl. cbn. apply IH. reflexivity.
Qed.

Lemma list_eqb_key_eq : forall a b, list_eqb key_eqb a b = true -> a = b.
Proof.
  induction a as [|x a IH]; destruct b as [|y b]; cbn [list_eqb]; intros H; try discriminate; auto.
  apply andb_prop in H. destruct H as [H1 H2]. apply key_eqb_eq in H1. subst. f_equal. auto.
Qed.

Lemma NoDup_app_intro {A} (l1 l2 : list A) :
  NoDup l1 -> NoDup l2 -> (forall x, In x l1 -> In x l2 -> False) -> NoDup (l1 ++ l2).
Proof.
  induction l1 as [|a l1 IH]; intros H1 H2 Hd; cbn [app]; auto.
  inversion H1; subst. constructor.
  - intros Hin. apply in_app_or in Hin. destruct Hin as [Hin|Hin]; [contradiction|].
    apply (Hd a); [left; reflexivity|exact Hin].
  - apply IH; auto. intros x Hx1 Hx2. apply (Hd x); [right; exact Hx1|exact Hx2].
Qed.

Lemma NoDup_map_cons (b : N) (l : list key) : NoDup l -> NoDup (map (cons b) l).
Proof.
  intros H. apply FinFun.Injective_map_NoDup; [|exact H].
  intros x y E. inversion E. reflexivity.
Qed.

(* ---------------------------------------------------------------- *)
(* the tree: induction principle and flat forms of the nested fixes   *)
(* ---------------------------------------------------------------- *)
Fixpoint tree_ind2 (P : tree -> Prop)
  (Hl : forall u s, P (TLeaf u s))
  (Hn : forall u tm cs, Forall (fun bc => P (snd bc)) cs -> P (TNode u tm cs)) (t : tree) : P t :=
  match t with
  | TLeaf u s => Hl u s
  | TNode u tm cs =>
    Hn u tm cs ((fix go (cs : list (N * tree)) : Forall (fun bc => P (snd bc)) cs :=
                   match cs with
                   | [] => Forall_nil _
                   | bc :: r => Forall_cons bc (tree_ind2 P Hl Hn (snd bc)) (go r)
                   end) cs)
  end.

Definition keys_go (cs : list (N * tree)) : list key :=
  flat_map (fun bc => map (cons (fst bc)) (keys_of (snd bc))) cs.
Definition nodes_go (cs : list (N * tree)) : list N := flat_map (fun bc => nodes_of (snd bc)) cs.
Definition nkeys_go (cs : list (N * tree)) : N := fold_right (fun bc a => nkeys_of (snd bc) + a) 0 cs.
Definition minimal_go (cs : list (N * tree)) : bool :=
  forallb (fun bc => (1 <=? nkeys_of (snd bc)) && minimal (snd bc)) cs.

Lemma keys_of_node u tm cs : keys_of (TNode u tm cs) = (if tm then [[]] else []) ++ keys_go cs.
Proof.
  cbn [keys_of]. f_equal. induction cs as [|[b c] r IH]; [reflexivity|].
  unfold keys_go; cbn [flat_map fst snd]. rewrite IH. reflexivity.
Qed.
Lemma nodes_of_node u tm cs : nodes_of (TNode u tm cs) = u :: nodes_go cs.
Proof.
  cbn [nodes_of]. f_equal. induction cs as [|[b c] r IH]; [reflexivity|].
  unfold nodes_go; cbn [flat_map fst snd]. rewrite IH. reflexivity.
Qed.
Lemma nkeys_of_node u tm cs : nkeys_of (TNode u tm cs) = (if tm then 1 else 0) + nkeys_go cs.
Proof.
  cbn [nkeys_of]. f_equal. induction cs as [|[b c] r IH]; [reflexivity|].
  unfold nkeys_go; cbn [fold_right fst snd]. rewrite IH. reflexivity.
Qed.
Lemma minimal_node u tm cs :
  minimal (TNode u tm cs) = (2 <=? nkeys_of (TNode u tm cs)) && minimal_go cs.
Proof.
  cbn [minimal]. f_equal. induction cs as [|[b c] r IH]; [reflexivity|].
  unfold minimal_go; cbn [forallb fst snd]. rewrite IH. reflexivity.
Qed.

Lemma nkeys_of_length : forall t, nkeys_of t = lenN (keys_of t).
Proof.
  induction t as [u s|u tm cs IH] using tree_ind2; [reflexivity|].
  rewrite nkeys_of_node, keys_of_node. unfold lenN. rewrite app_length, Nat2N.inj_add.
  f_equal; [destruct tm; reflexivity|].
  induction IH as [|bc r H _ IHr]; [reflexivity|].
  unfold nkeys_go, keys_go; cbn [fold_right flat_map]. rewrite app_length, Nat2N.inj_add, map_length.
  fold (nkeys_go r). fold (keys_go r). rewrite IHr, H. reflexivity.
Qed.

(* paths (relative to the subtree root) of the non-root nodes *)
Fixpoint paths (t : tree) : list key :=
  match t with
  | TLeaf _ _ => []
  | TNode _ _ cs =>
    (fix go (cs : list (N * tree)) : list key :=
       match cs with [] => [] | bc :: r => ([fst bc] :: map (cons (fst bc)) (paths (snd bc))) ++ go r end) cs
  end.
Definition paths_go (cs : list (N * tree)) : list key :=
  flat_map (fun bc => [fst bc] :: map (cons (fst bc)) (paths (snd bc))) cs.
Lemma paths_node u tm cs : paths (TNode u tm cs) = paths_go cs.
Proof.
  cbn [paths]. induction cs as [|bc r IH]; [reflexivity|].
  unfold paths_go; cbn [flat_map]. rewrite IH. reflexivity.
Qed.

Lemma nodes_paths_length : forall t, length (nodes_of t) = S (length (paths t)).
Proof.
  induction t as [u s|u tm cs IH] using tree_ind2; [reflexivity|].
  rewrite nodes_of_node, paths_node. cbn [length]. f_equal.
  induction IH as [|bc r H _ IHr]; [reflexivity|].
  unfold nodes_go, paths_go; cbn [flat_map]. fold (nodes_go r). fold (paths_go r).
  rewrite app_length, H, IHr. cbn [app length]. rewrite app_length, map_length. reflexivity.
Qed.

Lemma paths_nonempty : forall t, ~ In [] (paths t).
Proof.
  destruct t as [u s|u tm cs]; [intros []|].
  rewrite paths_node. unfold paths_go. rewrite in_flat_map. intros [bc [_ H]].
  destruct H as [H|H]; [discriminate|]. apply in_map_iff in H. destruct H as [x [H _]]. discriminate.
Qed.

(* ---------------------------------------------------------------- *)
(* shape facts guaranteed by extract                                  *)
(* ---------------------------------------------------------------- *)
Inductive tgood (n : N) : tree -> Prop :=
| tg_leaf u s : u < n -> tgood n (TLeaf u s)
| tg_node u tm cs : u < n -> NoDup (map fst cs) -> Forall (fun bc => tgood n (snd bc)) cs ->
                    tgood n (TNode u tm cs).

Lemma scan_children_good V rec n (Hrec : forall c t, rec c = Some t -> tgood n t) :
  forall bytes base u cs, NoDup bytes -> scan_children V rec bytes base u = Some cs ->
    NoDup (map fst cs) /\ incl (map fst cs) bytes /\ Forall (fun bc => tgood n (snd bc)) cs.
Proof.
  induction bytes as [|b r IH]; intros base u cs Hnd H; cbn [scan_children] in H.
  - inversion H; subst. cbn. repeat split; [constructor|intros x []|constructor].
  - destruct (negb _); [discriminate|].
    destruct (scan_children V rec r base u) as [rest|] eqn:E; [|discriminate].
    inversion Hnd as [|? ? Hnb Hndr]; subst.
    destruct (IH base u rest Hndr E) as [I1 [I2 I3]].
    destruct (_ =? u).
    + destruct (rec _) as [t|] eqn:Er; [|discriminate]. inversion H; subst. cbn [map fst].
      repeat split.
      * constructor; [|exact I1]. intros Hin. apply Hnb. apply I2. exact Hin.
      * intros x [Hx|Hx]; [left; exact Hx|right; apply I2; exact Hx].
      * constructor; [|exact I3]. cbn [snd]. eapply Hrec. exact Er.
    + inversion H; subst. repeat split; auto. intros x Hx. right. apply I2. exact Hx.
Qed.

Lemma bytes256_NoDup : NoDup bytes256.
Proof.
  unfold bytes256. apply FinFun.Injective_map_NoDup; [|apply seq_NoDup].
  intros x y E. apply Nat2N.inj. exact E.
Qed.

Lemma extract_good V : forall fuel u t, extract fuel V u = Some t -> tgood (v_n V) t.
Proof.
  induction fuel as [|f IH]; intros u t H; cbn [extract] in H; [discriminate|].
  destruct (N.ltb_spec u (v_n V)) as [Hu|Hu]; cbn [negb] in H; [|discriminate].
  destruct (vget (v_leaves V) u false).
  - inversion H; subst. constructor. exact Hu.
  - destruct (scan_children _ _ _ _ _) as [cs|] eqn:E; [|discriminate]. inversion H; subst.
    destruct (scan_children_good V (extract f V) (v_n V) (fun c t => IH c t) _ _ _ _ bytes256_NoDup E)
      as [I1 [_ I3]].
    constructor; assumption.
Qed.

Lemma tgood_nodes n : forall t, tgood n t -> forall x, In x (nodes_of t) -> x < n.
Proof.
  induction t as [u s|u tm cs IH] using tree_ind2; intros Hg x Hx; inversion Hg; subst.
  - destruct Hx as [<-|[]]. assumption.
  - rewrite nodes_of_node in Hx. destruct Hx as [<-|Hx]; [assumption|].
    unfold nodes_go in Hx. apply in_flat_map in Hx. destruct Hx as [bc [Hbc Hx]].
    rewrite Forall_forall in IH, H4. apply (IH bc Hbc); auto.
Qed.

(* ---------------------------------------------------------------- *)
(* the node paths of a minimal tree, in terms of its key list         *)
(* ---------------------------------------------------------------- *)
Lemma in_paths_go cs b p' :
  In (b :: p') (paths_go cs) <-> exists c, In (b, c) cs /\ (p' = [] \/ In p' (paths c)).
Proof.
  unfold paths_go. rewrite in_flat_map. split.
  - intros [[b0 c] [Hin H]]. cbn [fst snd] in H. destruct H as [H|H].
    + inversion H; subst. exists c. auto.
    + apply in_map_iff in H. destruct H as [x [E Hx]]. inversion E; subst. exists c. auto.
  - intros [c [Hin H]]. exists (b, c). split; [exact Hin|]. cbn [fst snd]. destruct H as [->|H].
    + left. reflexivity.
    + right. apply in_map. exact H.
Qed.

Lemma paths_go_head cs p : In p (paths_go cs) -> exists b p', p = b :: p' /\ In b (map fst cs).
Proof.
  unfold paths_go. rewrite in_flat_map. intros [bc [Hin H]].
  assert (Hb : In (fst bc) (map fst cs)) by (apply in_map; exact Hin).
  destruct H as [H|H].
  - exists (fst bc), []. auto.
  - apply in_map_iff in H. destruct H as [x [E _]]. exists (fst bc), x. auto.
Qed.

Lemma paths_NoDup n : forall t, tgood n t -> NoDup (paths t).
Proof.
  induction t as [u s|u tm cs IH] using tree_ind2; intros Hg; [constructor|].
  inversion Hg as [|? ? ? _ Hnd Hall]; subst. rewrite paths_node. clear Hg.
  induction cs as [|[b c] r IHr]; [constructor|].
  inversion IH as [|? ? IHc IHrest]; subst. inversion Hall as [|? ? Hc Hrest]; subst.
  cbn [map fst] in Hnd. inversion Hnd as [|? ? Hnb Hndr]; subst. cbn [snd] in *.
  unfold paths_go; cbn [flat_map fst snd]. fold (paths_go r).
  apply NoDup_app_intro.
  - constructor.
    + intros H. apply in_map_iff in H. destruct H as [x [E Hx]]. inversion E; subst.
      exact (paths_nonempty c Hx).
    + apply NoDup_map_cons. auto.
  - apply IHr; assumption.
  - intros x Hx1 Hx2. apply paths_go_head in Hx2. destruct Hx2 as [b' [p' [-> Hb']]].
    assert (b' = b).
    { destruct Hx1 as [H|H]; [inversion H; reflexivity|].
      apply in_map_iff in H. destruct H as [y [E _]]. inversion E; reflexivity. }
    subst. contradiction.
Qed.

Lemma count_app l1 l2 p :
  count_with_prefix (l1 ++ l2) p = (count_with_prefix l1 p + count_with_prefix l2 p)%nat.
Proof. unfold count_with_prefix. rewrite filter_app, app_length. reflexivity. Qed.
Lemma filter_cons_eq {A} (f : A -> bool) x l :
  filter f (x :: l) = if f x then x :: filter f l else filter f l.
Proof. reflexivity. Qed.
Lemma count_nil_prefix l : count_with_prefix l [] = length l.
Proof.
  unfold count_with_prefix. induction l as [|x l IH]; [reflexivity|]. rewrite filter_cons_eq.
  change (is_prefixb [] x) with true. cbn [length]. f_equal. exact IH.
Qed.
Lemma count_map_cons b b' q l :
  count_with_prefix (map (cons b) l) (b' :: q) = if b' =? b then count_with_prefix l q else 0%nat.
Proof.
  unfold count_with_prefix. induction l as [|x l IH]; cbn [map].
  - destruct (b' =? b); reflexivity.
  - rewrite !filter_cons_eq. change (is_prefixb (b' :: q) (b :: x)) with ((b' =? b) && is_prefixb q x).
    destruct (b' =? b) eqn:E; cbn [andb].
    + destruct (is_prefixb q x); cbn [length]; rewrite IH; reflexivity.
    + exact IH.
Qed.

Lemma count_keys_go_notin cs b q : ~ In b (map fst cs) -> count_with_prefix (keys_go cs) (b :: q) = 0%nat.
Proof.
  induction cs as [|[b0 c] r IH]; intros Hn; [reflexivity|].
  unfold keys_go; cbn [flat_map fst snd]. fold (keys_go r). rewrite count_app, count_map_cons.
  cbn [map fst] in Hn. destruct (N.eqb_spec b b0) as [->|Hne].
  - exfalso. apply Hn. left. reflexivity.
  - rewrite IH; [reflexivity|]. intros H. apply Hn. right. exact H.
Qed.
Lemma count_keys_go_in cs b c q :
  NoDup (map fst cs) -> In (b, c) cs -> count_with_prefix (keys_go cs) (b :: q) = count_with_prefix (keys_of c) q.
Proof.
  induction cs as [|[b0 c0] r IH]; intros Hnd Hin; [destruct Hin|].
  cbn [map fst] in Hnd. inversion Hnd as [|? ? Hnb Hndr]; subst.
  unfold keys_go; cbn [flat_map fst snd]. fold (keys_go r). rewrite count_app, count_map_cons.
  destruct Hin as [E|Hin].
  - inversion E; subst. rewrite N.eqb_refl, count_keys_go_notin by exact Hnb. lia.
  - destruct (N.eqb_spec b b0) as [->|Hne].
    + exfalso. apply Hnb. change b0 with (fst (b0, c)). apply in_map. exact Hin.
    + rewrite IH by assumption. reflexivity.
Qed.

Lemma in_keys_go cs k :
  In k (keys_go cs) <-> exists b c k', In (b, c) cs /\ k = b :: k' /\ In k' (keys_of c).
Proof.
  unfold keys_go. rewrite in_flat_map. split.
  - intros [[b c] [Hin H]]. cbn [fst snd] in H. apply in_map_iff in H. destruct H as [k' [E Hk']].
    exists b, c, k'. auto.
  - intros [b [c [k' [Hin [-> Hk']]]]]. exists (b, c). split; [exact Hin|]. cbn [fst snd].
    apply in_map. exact Hk'.
Qed.

Lemma count_term_part (tm : bool) b q : count_with_prefix (if tm then [[]] else []) (b :: q) = 0%nat.
Proof. destruct tm; reflexivity. Qed.

Lemma removelast_cons_ne {A} (b : A) p : p <> [] -> removelast (b :: p) = b :: removelast p.
Proof. destruct p; [contradiction|reflexivity]. Qed.

Lemma minimal_go_in cs bc : minimal_go cs = true -> In bc cs ->
  1 <= nkeys_of (snd bc) /\ minimal (snd bc) = true.
Proof.
  unfold minimal_go. rewrite forallb_forall. intros H Hin. specialize (H bc Hin).
  apply andb_prop in H. destruct H as [H1 H2]. apply N.leb_le in H1. auto.
Qed.

Lemma paths_spec n : forall t, tgood n t -> minimal t = true -> forall p,
  In p (paths t) <->
  p <> [] /\ (exists k, In k (keys_of t) /\ is_prefixb p k = true) /\
  (2 <= count_with_prefix (keys_of t) (removelast p))%nat.
Proof.
  induction t as [u s|u tm cs IH] using tree_ind2; intros Hg Hm p.
  - cbn [paths keys_of]. split; [intros []|]. intros [_ [_ H]]. exfalso.
    unfold count_with_prefix in H. cbn [filter] in H. destruct (is_prefixb _ _); cbn [length] in H; lia.
  - inversion Hg as [|? ? ? _ Hnd Hall]; subst.
    rewrite minimal_node in Hm. apply andb_prop in Hm. destruct Hm as [Hm2 Hmg]. apply N.leb_le in Hm2.
    rewrite Forall_forall in IH, Hall.
    destruct p as [|b p'].
    { split; [intros H; exfalso; exact (paths_nonempty _ H)|]. intros [H _]. exfalso. apply H. reflexivity. }
    rewrite paths_node, in_paths_go.
    assert (Hkey : forall k, In k (keys_of (TNode u tm cs)) -> is_prefixb (b :: p') k = true ->
              exists c k', In (b, c) cs /\ k = b :: k' /\ In k' (keys_of c) /\ is_prefixb p' k' = true).
    { intros k Hk Hpre. rewrite keys_of_node in Hk. apply in_app_or in Hk. destruct Hk as [Hk|Hk].
      - destruct tm; [|destruct Hk]. destruct Hk as [<-|[]]. discriminate.
      - apply in_keys_go in Hk. destruct Hk as [b0 [c [k' [Hin [-> Hk']]]]].
        cbn [is_prefixb] in Hpre. apply andb_prop in Hpre. destruct Hpre as [E Hpre].
        apply N.eqb_eq in E. subst b0. exists c, k'. auto. }
    assert (Hkin : forall c k', In (b, c) cs -> In k' (keys_of c) -> In (b :: k') (keys_of (TNode u tm cs))).
    { intros c k' Hin Hk'. rewrite keys_of_node. apply in_or_app. right. apply in_keys_go.
      exists b, c, k'. auto. }
    destruct p' as [|b2 p''].
    + cbn [removelast]. rewrite count_nil_prefix. split.
      * intros [c [Hin _]]. split; [discriminate|]. split.
        -- destruct (minimal_go_in _ _ Hmg Hin) as [H1 _]. cbn [snd] in H1.
           rewrite nkeys_of_length in H1. unfold lenN in H1.
           destruct (keys_of c) as [|k' ?] eqn:Ek; [cbn in H1; lia|].
           exists (b :: k'). split.
           ++ apply (Hkin c); [exact Hin|]. rewrite Ek. left. reflexivity.
           ++ cbn [is_prefixb]. rewrite N.eqb_refl. reflexivity.
        -- rewrite nkeys_of_length in Hm2. unfold lenN in Hm2. lia.
      * intros [_ [[k [Hk Hpre]] _]]. destruct (Hkey k Hk Hpre) as [c [k' [Hin _]]].
        exists c. auto.
    + remember (b2 :: p'') as p' eqn:Ep. assert (Hne : p' <> []) by (subst; discriminate).
      clear Ep b2 p''. rewrite removelast_cons_ne by exact Hne.
      replace (count_with_prefix (keys_of (TNode u tm cs)) (b :: removelast p'))
        with (count_with_prefix (keys_go cs) (b :: removelast p'))
        by (rewrite keys_of_node, count_app, count_term_part; reflexivity).
      split.
      * intros [c [Hin [Hnil|Hp]]]; [contradiction|].
        destruct (minimal_go_in _ _ Hmg Hin) as [_ Hmc]. cbn [snd] in Hmc.
        apply (IH (b, c) Hin (Hall (b, c) Hin) Hmc) in Hp. cbn [snd] in Hp.
        destruct Hp as [_ [[k' [Hk' Hpre]] Hcnt]].
        split; [discriminate|]. split.
        -- exists (b :: k'). split; [apply (Hkin c); assumption|].
           cbn [is_prefixb]. rewrite N.eqb_refl. exact Hpre.
        -- rewrite (count_keys_go_in cs b c) by assumption. exact Hcnt.
      * intros [_ [[k [Hk Hpre]] Hcnt]]. destruct (Hkey k Hk Hpre) as [c [k' [Hin [-> [Hk' Hpre']]]]].
        exists c. split; [exact Hin|]. right.
        destruct (minimal_go_in _ _ Hmg Hin) as [_ Hmc]. cbn [snd] in Hmc.
        apply (IH (b, c) Hin (Hall (b, c) Hin) Hmc). cbn [snd].
        split; [exact Hne|]. split; [exists k'; auto|].
        rewrite (count_keys_go_in cs b c) in Hcnt by assumption. exact Hcnt.
Qed.

(* ---------------------------------------------------------------- *)
(* the specification side                                             *)
(* ---------------------------------------------------------------- *)
Lemma existsb_key_in x l : existsb (key_eqb x) l = true <-> In x l.
Proof.
  rewrite existsb_exists. split.
  - intros [y [Hy E]]. apply key_eqb_eq in E. subst. exact Hy.
  - intros H. exists x. split; [exact H|]. apply key_eqb_eq. reflexivity.
Qed.

Lemma dedup_in l x : In x (dedup l) <-> In x l.
Proof.
  induction l as [|y l IH]; cbn [dedup]; [tauto|].
  destruct (existsb (key_eqb y) l) eqn:E.
  - rewrite IH. split; [intros H; right; exact H|]. intros [<-|H]; [|exact H].
    apply existsb_key_in. exact E.
  - cbn [In]. rewrite IH. tauto.
Qed.

Lemma dedup_NoDup l : NoDup (dedup l).
Proof.
  induction l as [|y l IH]; cbn [dedup]; [constructor|].
  destruct (existsb (key_eqb y) l) eqn:E; [exact IH|].
  constructor; [|exact IH]. rewrite dedup_in. intros H. apply existsb_key_in in H. congruence.
Qed.

Lemma in_prefixes_of : forall k p, In p (prefixes_of k) <-> p <> [] /\ is_prefixb p k = true.
Proof.
  induction k as [|c k IH]; intros p; cbn [prefixes_of].
  - split; [intros []|]. intros [Hne H]. destruct p; [contradiction|discriminate].
  - split.
    + intros [<-|H].
      * split; [discriminate|]. cbn [is_prefixb]. rewrite N.eqb_refl. reflexivity.
      * apply in_map_iff in H. destruct H as [p' [<- Hp']]. apply IH in Hp'. destruct Hp' as [_ Hp'].
        split; [discriminate|]. cbn [is_prefixb]. rewrite N.eqb_refl. exact Hp'.
    + intros [Hne H]. destruct p as [|x p']; [contradiction|]. cbn [is_prefixb] in H.
      apply andb_prop in H. destruct H as [E H]. apply N.eqb_eq in E. subst x.
      destruct p' as [|y p'']; [left; reflexivity|]. right. apply in_map. apply IH.
      split; [discriminate|exact H].
Qed.

Theorem mp_nodes_tree n T : tgood n T -> minimal T = true ->
  N.of_nat (length (nodes_of T)) = spec_mp_nodes (keys_of T).
Proof.
  intros Hg Hm. unfold spec_mp_nodes. rewrite nodes_paths_length, Nat2N.inj_succ, <- N.add_1_l.
  do 2 f_equal. apply Permutation_length. apply NoDup_Permutation.
  - exact (paths_NoDup n T Hg).
  - apply NoDup_filter. apply dedup_NoDup.
  - intros p. rewrite (paths_spec n T Hg Hm p), filter_In, dedup_in, in_concat. split.
    + intros [Hne [[k [Hk Hpre]] Hc]]. split.
      * exists (prefixes_of k). split; [apply in_map; exact Hk|]. apply in_prefixes_of. auto.
      * apply Nat.leb_le. exact Hc.
    + intros [[l [Hl Hp]] Hc]. apply in_map_iff in Hl. destruct Hl as [k [<- Hk]].
      apply in_prefixes_of in Hp. destruct Hp as [Hne Hpre]. apply Nat.leb_le in Hc.
      split; [exact Hne|]. split; [exists k; auto|exact Hc].
Qed.

(* ---------------------------------------------------------------- *)
(* part (a): the used units are exactly the tree's nodes              *)
(* ---------------------------------------------------------------- *)
Definition nd_step (st : bool * PM.t Datatypes.unit) (x : N) : bool * PM.t Datatypes.unit :=
  let '(ok, m) := st in
  match PM.find (N.succ_pos x) m with
  | Some _ => (false, m)
  | None => (ok, PM.add (N.succ_pos x) tt m)
  end.

Lemma nd_fold_false : forall l m, fst (fold_left nd_step l (false, m)) = false.
Proof.
  induction l as [|x l IH]; intros m; [reflexivity|]. cbn [fold_left nd_step].
  destruct (PM.find _ m); apply IH.
Qed.

Lemma nd_fold_inv : forall l ok m, fst (fold_left nd_step l (ok, m)) = true ->
  ok = true /\ NoDup l /\ forall x, In x l -> PM.find (N.succ_pos x) m = None.
Proof.
  induction l as [|x l IH]; intros ok m H.
  - cbn in H. subst. repeat split; [constructor|intros x []].
  - cbn [fold_left nd_step] in H. destruct (PM.find (N.succ_pos x) m) eqn:E.
    + rewrite nd_fold_false in H. discriminate.
    + apply IH in H. destruct H as [Hok [Hnd Hfree]]. split; [exact Hok|].
      assert (Hx : ~ In x l).
      { intros Hin. specialize (Hfree x Hin). rewrite PM.gss in Hfree. discriminate. }
      split; [constructor; assumption|].
      intros y [<-|Hy]; [exact E|]. specialize (Hfree y Hy).
      rewrite PM.gso in Hfree; [exact Hfree|].
      intros Heq. apply succ_pos_inj in Heq. subst. contradiction.
Qed.

Lemma nodup_fast_NoDup l : nodup_fast l = true -> NoDup l.
Proof.
  unfold nodup_fast. intros H.
  change (fst (fold_left nd_step l (true, PM.empty Datatypes.unit)) = true) in H.
  apply nd_fold_inv in H. tauto.
Qed.

Lemma in_set_fold i : forall l m,
  in_set (fold_left (fun m x => PM.add (N.succ_pos x) tt m) l m) i = true <-> In i l \/ in_set m i = true.
Proof.
  induction l as [|x l IH]; intros m; cbn [fold_left In]; [tauto|].
  rewrite IH. unfold in_set. destruct (N.eq_dec x i) as [->|Hne].
  - rewrite PM.gss. tauto.
  - rewrite PM.gso; [tauto|]. intros Heq. apply succ_pos_inj in Heq. congruence.
Qed.

Lemma in_set_of l i : in_set (set_of l) i = true <-> In i l.
Proof.
  unfold set_of. rewrite in_set_fold. unfold in_set. rewrite PM.gempty. split; [intros [H|H]|]; auto.
  discriminate.
Qed.

Lemma in_iota : forall n i x, In x (iota n i) <-> i <= x < i + N.of_nat n.
Proof.
  induction n as [|n IH]; intros i x; cbn [iota In].
  - lia.
  - rewrite IH. lia.
Qed.
Lemma iota_NoDup : forall n i, NoDup (iota n i).
Proof.
  induction n as [|n IH]; intros i; cbn [iota]; constructor; [|apply IH].
  rewrite in_iota. lia.
Qed.

Lemma count_free_le : forall units i, count_free_spec units i <= lenN units.
Proof.
  induction units as [|u t IH]; intros i; cbn [count_free_spec]; unfold lenN in *; cbn [length].
  - lia.
  - specialize (IH (i + 1)). destruct (snd u =? i); lia.
Qed.

Lemma used_count (S : PM.t Datatypes.unit) : forall units i,
  forallb_idx (fun i u => if in_set S i then negb (snd u =? i) else (snd u =? i)) units i = true ->
  count_free_spec units i + N.of_nat (length (filter (in_set S) (iota (length units) i))) = lenN units.
Proof.
  induction units as [|u t IH]; intros i H; [reflexivity|].
  cbn [forallb_idx] in H. apply andb_prop in H. destruct H as [H1 H2]. specialize (IH (i + 1) H2).
  cbn [count_free_spec length iota]. rewrite filter_cons_eq. unfold lenN in *. cbn [length].
  destruct (in_set S i).
  - apply negb_true_iff in H1. rewrite H1. cbn [length]. lia.
  - rewrite H1. lia.
Qed.

Lemma used_is_nodes nodes units :
  NoDup nodes -> (forall x, In x nodes -> x < lenN units) ->
  forallb_idx (fun i u => if in_set (set_of nodes) i then negb (snd u =? i) else (snd u =? i)) units 0 = true ->
  lenN units - count_free_spec units 0 = N.of_nat (length nodes).
Proof.
  intros Hnd Hlt H. apply used_count in H.
  assert (E : length (filter (in_set (set_of nodes)) (iota (length units) 0)) = length nodes).
  { apply Permutation_length. apply NoDup_Permutation.
    - apply NoDup_filter. apply iota_NoDup.
    - exact Hnd.
    - intros x. rewrite filter_In, in_iota, in_set_of. split; [tauto|].
      intros Hx. split; [|exact Hx]. specialize (Hlt x Hx). unfold lenN in Hlt. lia. }
  rewrite E in H. lia.
Qed.

(* ---------------------------------------------------------------- *)
(* what lwf_b gives for the statistics                                *)
(* ---------------------------------------------------------------- *)
Lemma lwf_b_stats L K : lwf_b L K = true ->
  lg_alpha L = spec_alphabet K /\ lg_maxlen L = spec_max_length K /\ lg_nkeys L = lenN K /\
  exists T, the_tree L = Some T /\ keys_of T = K /\ NoDup (nodes_of T) /\ minimal T = true /\
            tgood (lenN (lg_units L)) T /\
            forallb_idx (fun i u => if in_set (set_of (nodes_of T)) i then negb (snd u =? i) else (snd u =? i))
                        (lg_units L) 0 = true.
Proof.
  intros H. unfold lwf_b in H. cbv zeta in H.
  apply andb_prop in H. destruct H as [H HT].
  apply andb_prop in H. destruct H as [H _].
  apply andb_prop in H. destruct H as [H _].
  apply andb_prop in H. destruct H as [H _].
  apply andb_prop in H. destruct H as [H _].
  apply andb_prop in H. destruct H as [H Hnk].
  apply andb_prop in H. destruct H as [H Hml].
  apply andb_prop in H. destruct H as [_ Hal].
  apply list_eqb_N_eq in Hal. apply N.eqb_eq in Hml. apply N.eqb_eq in Hnk.
  split; [exact Hal|]. split; [exact Hml|]. split; [exact Hnk|].
  destruct (extract (S (N.to_nat (lg_maxlen L))) (view_of L) 0) as [T|] eqn:ET; [|discriminate].
  exists T. split; [exact ET|].
  apply andb_prop in HT. destruct HT as [HT Hidx].
  apply andb_prop in HT. destruct HT as [HT Hmin].
  apply andb_prop in HT. destruct HT as [HT _].
  apply andb_prop in HT. destruct HT as [HT _].
  apply andb_prop in HT. destruct HT as [Hkeys Hnd].
  apply list_eqb_key_eq in Hkeys. apply nodup_fast_NoDup in Hnd.
  apply extract_good in ET. cbn [v_n view_of] in ET.
  auto 10.
Qed.

Section Stats.
Hypothesis Hphys : PhysSpec.

(* part (a) on its own: the node count is the size of the abstract tree *)
Theorem num_nodes_tree : forall v L P K T, wf_for v L P K -> the_tree L = Some T ->
  t_num_nodes P = N.of_nat (length (nodes_of T)).
Proof.
  intros v L P K T Hwf HT. pose proof (Hphys v L P K Hwf) as Hp. destruct Hwf as [_ Hl].
  apply lwf_b_stats in Hl. destruct Hl as [_ [_ [_ [T' [HT' [_ [Hnd [_ [Hg Hidx]]]]]]]]].
  rewrite HT in HT'. inversion HT'; subst T'.
  rewrite (ph_nodes _ _ Hp). apply used_is_nodes; [exact Hnd| |exact Hidx].
  exact (tgood_nodes _ _ Hg).
Qed.

Theorem stats_spec : StatsSpec.
Proof.
  intros v L P K Hwf. pose proof (Hphys v L P K Hwf) as Hp. pose proof Hwf as [_ Hl].
  apply lwf_b_stats in Hl. destruct Hl as [Hal [Hml [Hnk [T [HT [Hk [Hnd [Hmin [Hg Hidx]]]]]]]]].
  split; [|split; [|split; [|split; [|split]]]].
  - unfold t_num_keys. rewrite (ph_nkeys _ _ Hp). exact Hnk.
  - rewrite (ph_maxlen _ _ Hp). exact Hml.
  - rewrite (ph_alen _ _ Hp), Hal. reflexivity.
  - rewrite (ph_nodes _ _ Hp), (ph_frees _ _ Hp), (ph_units _ _ Hp).
    pose proof (count_free_le (lg_units L) 0). lia.
  - rewrite (num_nodes_tree v L P K T Hwf HT), <- Hk.
    exact (mp_nodes_tree _ T Hg Hmin).
  - exact (ph_tail _ _ Hp).
Qed.
End Stats.

Print Assumptions mp_nodes_tree.
Print Assumptions num_nodes_tree.
Print Assumptions stats_spec.
