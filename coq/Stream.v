(* Stream.v: the output side of save as a state machine (C16).
   save_visitor issues a sequence of ofstream::write calls (one per POD member, two per immutable_vector:
   the count, then the body), then flush(), then tests fail().  The stream's error state is sticky: once a
   call has reported a refusal (badbit/failbit), every later write is a no-op (the sentry fails) and fail()
   stays true.  The device is an arbitrary schedule: for each call it accepts the whole chunk ([None]) or only
   the first [a] bytes of it ([Some a], a refusal when a < length); the flush may be refused as well.
   Nothing here depends on how the bytes are cut into chunks: the theorems of StreamFacts.v hold for ANY
   chunking whose concatenation is [save v P]; [save_chunks] is the cutting the visitor really uses. *)
From X Require Import Base Arr Consts BitToolsSpec BitToolsGen BitVector CompactVector Dac Tail Trie Serial.
Local Open Scope N_scope.

Record ostate := mkOs { os_failed : bool; os_dev : list N }.   (* error state; bytes the device holds *)
Definition os_init : ostate := mkOs false [].

(* ofstream::write(chunk) against a device answer *)
Definition os_write (st : ostate) (chunk : list N) (acc : option N) : ostate :=
  if os_failed st then st else
  match acc with
  | None => mkOs false (os_dev st ++ chunk)
  | Some a => if a <? lenN chunk then mkOs true (os_dev st ++ firstn (N.to_nat a) chunk)
              else mkOs false (os_dev st ++ chunk)
  end.
Definition os_flush (st : ostate) (ok : bool) : ostate :=
  if os_failed st then st else if ok then st else mkOs true (os_dev st).

(* the schedule is consumed one answer per call; when it runs out the device accepts *)
Fixpoint os_writes (st : ostate) (chunks : list (list N)) (sched : list (option N)) : ostate :=
  match chunks with
  | [] => st
  | c :: cs => match sched with
               | [] => os_writes (os_write st c None) cs []
               | a :: sched' => os_writes (os_write st c a) cs sched'
               end
  end.

(* xcdat::save over a chunk sequence: open, write all, bytes() = flush + fail() test + tellp *)
Definition save_stream (target : fsnode) (chunks : list (list N)) (sched : list (option N)) (flush_ok : bool)
  : res (N * list N) :=
  match target with
  | NoParent | Dir => Exc OpenFail
  | _ => let st := os_flush (os_writes os_init chunks sched) flush_ok in
         if os_failed st then Exc WriteFail else Ok (lenN (os_dev st), os_dev st)
  end.

(* does some call that is really issued get refused? *)
Fixpoint refused (chunks : list (list N)) (sched : list (option N)) : bool :=
  match chunks, sched with
  | c :: cs, Some a :: sched' => (a <? lenN c) || refused cs sched'
  | _ :: cs, None :: sched' => refused cs sched'
  | _, _ => false
  end.

(* ---------------- the visitor's own chunking ---------------- *)
Definition ch_vec (w : nat) (a : arr N) : list (list N) := [enc_u64 (alen a); flat_map (enc_le w) (alist a)].
Definition ch_bv (b : bitvec) : list (list N) :=
  [enc_u64 (bv_size b); enc_u64 (bv_ones b)] ++ ch_vec 8 (bv_words b) ++
  ch_vec 8 (bv_rank_hints b) ++ ch_vec 8 (bv_sel_hints b).
Definition ch_cv (c : compact) : list (list N) :=
  [enc_u64 (cv_size c); enc_u64 (cv_bits c); enc_u64 (cv_mask c)] ++ ch_vec 8 (cv_chunks c).
(* code_table: max_length, the 512-byte table (one POD std::array), the alphabet vector *)
Definition ch_ct (c : ctable) : list (list N) :=
  [enc_u64 (ct_maxlen c); alist (ct_table c)] ++ ch_vec 1 (ct_alpha c).
Definition ch_tail (t : tailvec) : list (list N) := ch_vec 1 (tv_chars t) ++ ch_bv (tv_terms t).
Definition ch_bc8 (d : bc8) : list (list N) :=
  [enc_u32 (b8_nlev d); enc_u64 (b8_frees d)] ++
  flat_map (ch_vec (cell_bytes8 (b8_w d))) (b8_ints d) ++
  flat_map ch_bv (b8_nexts d) ++ ch_cv (b8_links d) ++ ch_bv (b8_leaves d).
Fixpoint ch_vecs (ws : list nat) (l : list (arr N)) : list (list N) :=
  match ws, l with
  | w :: ws', a :: l' => ch_vec w a ++ ch_vecs ws' l'
  | _, _ => []
  end.
Definition ch_bc7 (d : bc7) : list (list N) :=
  [enc_u64 (b7_frees d)] ++ ch_vecs (widths7 (b7_vbits d)) (b7_ints d) ++
  flat_map (ch_vec 8) (b7_ranks d) ++ ch_cv (b7_links d) ++ ch_bv (b7_leaves d).
Definition ch_bc (d : bcvec) : list (list N) := match d with Bc8 d => ch_bc8 d | Bc7 d => ch_bc7 d end.
Definition ch_trie (P : trie) : list (list N) :=
  [enc_u64 (t_nkeys P)] ++ ch_ct (t_table P) ++ ch_bv (t_terms P) ++ ch_bc (t_bc P) ++ ch_tail (t_tail P).
Definition save_chunks (v : variant) (P : trie) : list (list N) := enc_u32 (type_id v) :: ch_trie P.

(* xcdat::save against a device schedule *)
Definition save_dev (v : variant) (P : trie) (target : fsnode) (sched : list (option N)) (flush_ok : bool)
  : res (N * list N) := save_stream target (save_chunks v P) sched flush_ok.

(* the schedules the harness realises.
   capacity l, permanent (RLIMIT_FSIZE, /dev/full): every call gets what is left of the capacity;
   capacity l, transient (the limit is lifted after the first refusal): only the first refusal happens *)
Fixpoint sched_cap (chunks : list (list N)) (left : N) : list (option N) :=
  match chunks with
  | [] => []
  | c :: cs => Some left :: sched_cap cs (left - N.min left (lenN c))
  end.
Fixpoint sched_transient (chunks : list (list N)) (left : N) : list (option N) :=
  match chunks with
  | [] => []
  | c :: cs => if left <? lenN c then [Some left] else None :: sched_transient cs (left - lenN c)
  end.
