(* StreamFacts.v: the sticky-error stream machine of Stream.v (C16).
   For ANY cutting of the file into write calls and ANY device schedule: save returns normally iff no issued
   call (and not the flush) was refused, and then the device holds exactly [save v P]. *)
From X Require Import Base Arr Consts BitToolsSpec BitToolsGen BitVector CompactVector Dac Tail Trie Serial
  SerialFacts Stream.
From Coq Require Import Lia.
Local Open Scope N_scope.

Lemma sf_lenN_app {A} (a b : list A) : lenN (a ++ b) = lenN a + lenN b.
Proof. unfold lenN. rewrite app_length. lia. Qed.

(* ---------------- the machine ---------------- *)
Lemma os_writes_failed : forall cs sched st, os_failed st = true -> os_writes st cs sched = st.
Proof.
  induction cs as [|c cs IH]; intros sched st Hf; cbn [os_writes]; [reflexivity|].
  assert (E : forall a, os_write st c a = st) by (intros a; unfold os_write; rewrite Hf; reflexivity).
  destruct sched as [|a sched']; rewrite E; apply IH; exact Hf.
Qed.

Lemma os_writes_spec : forall cs sched d,
  let st := os_writes (mkOs false d) cs sched in
  if refused cs sched then os_failed st = true
  else st = mkOs false (d ++ concat cs).
Proof.
  induction cs as [|c cs IH]; intros sched d; cbn [os_writes refused concat].
  - destruct sched as [|[a|] s]; cbn; rewrite app_nil_r; reflexivity.
  - destruct sched as [|[a|] s].
    + unfold os_write; cbn [os_failed os_dev].
      specialize (IH [] (d ++ c)). cbn zeta in IH.
      replace (refused cs []) with false in IH by (destruct cs; reflexivity).
      rewrite IH, <- app_assoc. reflexivity.
    + unfold os_write; cbn [os_failed os_dev]. destruct (a <? lenN c) eqn:Ha; cbn [orb].
      * rewrite os_writes_failed by reflexivity. reflexivity.
      * specialize (IH s (d ++ c)). cbn zeta in IH. destruct (refused cs s).
        -- exact IH.
        -- rewrite IH, <- app_assoc. reflexivity.
    + unfold os_write; cbn [os_failed os_dev].
      specialize (IH s (d ++ c)). cbn zeta in IH. destruct (refused cs s).
      * exact IH.
      * rewrite IH, <- app_assoc. reflexivity.
Qed.

(* the whole of save over an arbitrary chunk sequence and schedule *)
Theorem save_stream_spec : forall target cs sched fl, target <> NoParent -> target <> Dir ->
  save_stream target cs sched fl =
    if refused cs sched || negb fl then Exc WriteFail else Ok (lenN (concat cs), concat cs).
Proof.
  intros target cs sched fl H1 H2.
  assert (E : save_stream target cs sched fl =
              let st := os_flush (os_writes os_init cs sched) fl in
              if os_failed st then Exc WriteFail else Ok (lenN (os_dev st), os_dev st))
    by (destruct target; try contradiction; reflexivity).
  rewrite E; clear E. cbn zeta. pose proof (os_writes_spec cs sched []) as S. cbn zeta in S.
  fold os_init in S. destruct (refused cs sched); cbn [orb].
  - unfold os_flush. rewrite S, S. reflexivity.
  - rewrite S. unfold os_flush; cbn [os_failed os_dev app]. destruct fl; reflexivity.
Qed.

Theorem save_stream_open_fail : forall target cs sched fl, target = NoParent \/ target = Dir ->
  save_stream target cs sched fl = Exc OpenFail.
Proof. intros target cs sched fl [-> | ->]; reflexivity. Qed.

(* ---------------- the visitor's chunking is a cutting of [save v P] ---------------- *)
Lemma concat_app' {A} (a b : list (list A)) : concat (a ++ b) = concat a ++ concat b.
Proof. apply concat_app. Qed.

Lemma ch_vec_concat w a : concat (ch_vec w a) = enc_vec w a.
Proof. unfold ch_vec, enc_vec. cbn [concat]. rewrite app_nil_r. reflexivity. Qed.
Lemma ch_bv_concat b : concat (ch_bv b) = enc_bv b.
Proof.
  unfold ch_bv, enc_bv. rewrite !concat_app', !ch_vec_concat. cbn [concat]. rewrite app_nil_r, <- ?app_assoc. reflexivity.
Qed.
Lemma ch_cv_concat c : concat (ch_cv c) = enc_cv c.
Proof.
  unfold ch_cv, enc_cv. rewrite !concat_app', !ch_vec_concat. cbn [concat]. rewrite app_nil_r, <- ?app_assoc. reflexivity.
Qed.
Lemma ch_ct_concat c : concat (ch_ct c) = enc_ct c.
Proof.
  unfold ch_ct, enc_ct. rewrite !concat_app', !ch_vec_concat. cbn [concat]. rewrite app_nil_r, <- ?app_assoc. reflexivity.
Qed.
Lemma ch_tail_concat t : concat (ch_tail t) = enc_tail t.
Proof. unfold ch_tail, enc_tail. rewrite concat_app', ch_vec_concat, ch_bv_concat. reflexivity. Qed.

Lemma concat_flat_map {A} (f : A -> list (list N)) (g : A -> list N) (l : list A) :
  (forall x, concat (f x) = g x) -> concat (flat_map f l) = flat_map g l.
Proof.
  intros H. induction l as [|x l IH]; cbn [flat_map]; [reflexivity|].
  rewrite concat_app', H, IH. reflexivity.
Qed.
Lemma ch_vecs_concat : forall ws l, concat (ch_vecs ws l) = enc_vecs ws l.
Proof.
  induction ws as [|w ws IH]; intros l; cbn [ch_vecs enc_vecs]; [reflexivity|].
  destruct l as [|a l]; [reflexivity|]. rewrite concat_app', ch_vec_concat, IH. reflexivity.
Qed.
Lemma ch_bc_concat d : concat (ch_bc d) = enc_bc d.
Proof.
  destruct d as [d|d]; cbn [ch_bc enc_bc].
  - unfold ch_bc8, enc_bc8. rewrite !concat_app'.
    rewrite (concat_flat_map _ _ _ (ch_vec_concat (cell_bytes8 (b8_w d)))).
    rewrite (concat_flat_map _ _ _ ch_bv_concat), ch_cv_concat, ch_bv_concat.
    cbn [concat]. rewrite app_nil_r, <- ?app_assoc. reflexivity.
  - unfold ch_bc7, enc_bc7. rewrite !concat_app'.
    rewrite ch_vecs_concat, (concat_flat_map _ _ _ (ch_vec_concat 8%nat)), ch_cv_concat, ch_bv_concat.
    cbn [concat]. rewrite app_nil_r, <- ?app_assoc. reflexivity.
Qed.

Theorem save_chunks_concat : forall v P, concat (save_chunks v P) = save v P.
Proof.
  intros v P. unfold save_chunks, save, ch_trie, enc_trie. cbn [concat]. f_equal.
  rewrite !concat_app', ch_ct_concat, ch_bv_concat, ch_bc_concat, ch_tail_concat.
  cbn [concat]. rewrite app_nil_r, <- ?app_assoc. reflexivity.
Qed.

(* ---------------- C16 in full ---------------- *)
(* any chunking of the file, any schedule: fail (exception) or complete *)
Theorem save_any_chunking : forall v P target cs sched fl, concat cs = save v P ->
  target <> NoParent -> target <> Dir ->
  save_stream target cs sched fl =
    if refused cs sched || negb fl then Exc WriteFail else Ok (lenN (save v P), save v P).
Proof. intros v P target cs sched fl E H1 H2. rewrite save_stream_spec by assumption. rewrite E. reflexivity. Qed.

Theorem save_dev_spec : forall v P target sched fl, target <> NoParent -> target <> Dir ->
  save_dev v P target sched fl =
    if refused (save_chunks v P) sched || negb fl then Exc WriteFail else Ok (lenN (save v P), save v P).
Proof. intros. apply save_any_chunking; [apply save_chunks_concat|assumption|assumption]. Qed.

(* a normal return means: complete file, count = memory_in_bytes, loads to the same structure *)
Theorem save_dev_ok_complete : forall v P target sched fl n b, trie_fits v P ->
  save_dev v P target sched fl = Ok (n, b) ->
  b = save v P /\ n = memory_in_bytes v P /\ fs_load v (File b) = Ok P /\ fs_type_id (File b) = Ok (type_id v)
  /\ refused (save_chunks v P) sched = false /\ fl = true.
Proof.
  intros v P target sched fl n b Hf H.
  assert (Ht : target <> NoParent /\ target <> Dir).
  { split; intros ->; discriminate H. }
  destruct Ht as [H1 H2]. rewrite save_dev_spec in H by assumption.
  destruct (refused (save_chunks v P) sched) eqn:R; cbn [orb] in H; [discriminate|].
  destruct fl; cbn [negb] in H; [|discriminate]. inversion H; subst n b.
  split; [reflexivity|]. split; [apply save_length; exact Hf|]. split; [apply load_save; exact Hf|].
  split; [apply save_tag|]. split; reflexivity.
Qed.

(* a refusal anywhere is reported, whatever happens afterwards (transient or permanent) *)
Theorem save_dev_refusal_throws : forall v P target sched fl, target <> NoParent -> target <> Dir ->
  refused (save_chunks v P) sched = true \/ fl = false ->
  save_dev v P target sched fl = Exc WriteFail.
Proof.
  intros v P target sched fl H1 H2 H. rewrite save_dev_spec by assumption.
  destruct H as [-> | ->]; [reflexivity|]. rewrite orb_true_r. reflexivity.
Qed.

(* ---------------- the schedules the harness realises ---------------- *)
Lemma refused_sched_cap : forall cs l, refused cs (sched_cap cs l) = (l <? lenN (concat cs)).
Proof.
  induction cs as [|c cs IH]; intros l; cbn [sched_cap refused concat].
  - symmetry. apply N.ltb_ge. unfold lenN; cbn. lia.
  - rewrite IH, sf_lenN_app. destruct (l <? lenN c) eqn:E1; cbn [orb].
    + apply N.ltb_lt in E1. symmetry. apply N.ltb_lt. lia.
    + apply N.ltb_ge in E1. rewrite N.min_r by lia.
      destruct (l - lenN c <? lenN (concat cs)) eqn:E2; symmetry.
      * apply N.ltb_lt in E2. apply N.ltb_lt. lia.
      * apply N.ltb_ge in E2. apply N.ltb_ge. lia.
Qed.
Lemma refused_sched_transient : forall cs l, refused cs (sched_transient cs l) = (l <? lenN (concat cs)).
Proof.
  induction cs as [|c cs IH]; intros l; cbn [sched_transient refused concat].
  - symmetry. apply N.ltb_ge. unfold lenN; cbn. lia.
  - rewrite sf_lenN_app. destruct (l <? lenN c) eqn:E1.
    + cbn [refused]. rewrite E1. cbn [orb]. apply N.ltb_lt in E1. symmetry. apply N.ltb_lt. lia.
    + cbn [refused]. rewrite IH. apply N.ltb_ge in E1.
      destruct (l - lenN c <? lenN (concat cs)) eqn:E2; symmetry.
      * apply N.ltb_lt in E2. apply N.ltb_lt. lia.
      * apply N.ltb_ge in E2. apply N.ltb_ge. lia.
Qed.

(* the capacity device of Serial.fs_save is the permanent schedule; the transient one has the same outcome *)
Theorem save_dev_capacity : forall v P target l, target <> NoParent -> target <> Dir ->
  save_dev v P target (sched_cap (save_chunks v P) l) true = fs_save v P target (Some l) /\
  save_dev v P target (sched_transient (save_chunks v P) l) true = fs_save v P target (Some l).
Proof.
  intros v P target l H1 H2. destruct (fs_save_spec v P target l) as [E _]. rewrite (E H1 H2).
  rewrite !save_dev_spec by assumption.
  rewrite refused_sched_cap, refused_sched_transient, save_chunks_concat, orb_false_r. split; reflexivity.
Qed.
