(* Tail.v: model of include/xcdat/tail_vector.hpp (builder with shared endings; match / prefix_match / decode) *)
From Coq Require Import Sorting.Mergesort Orders.
From X Require Import Base Arr Consts BitToolsSpec BitToolsGen BitVector.
Local Open Scope N_scope.

Record tailvec := mkTail { tv_chars : arr N; tv_terms : bitvec }.
Definition tv_empty : tailvec := mkTail aempty bv_empty.
Definition tv_bin_mode (t : tailvec) : bool := negb (bv_size (tv_terms t) =? 0).
Definition tv_size (t : tailvec) : N := alen (tv_chars t).

(* ---- builder ---- *)
Definition suffix := (key * N)%type.      (* (str, npos) *)

(* `char` is signed on the target: the comparator of complete() orders bytes as signed values *)
Definition schar_ltb (a b : N) : bool :=
  let sa := if a <? 128 then a + 256 else a in      (* order-preserving image of the signed value + 256 *)
  let sb := if b <? 128 then b + 256 else b in
  sa <? sb.

(* std::lexicographical_compare on two sequences *)
Fixpoint lex_ltb (lt : N -> N -> bool) (a b : list N) : bool :=
  match a, b with
  | _, [] => false
  | [], _ :: _ => true
  | x :: a', y :: b' => if lt x y then true else if lt y x then false else lex_ltb lt a' b'
  end.

Definition suf_ltb (a b : suffix) : bool := lex_ltb schar_ltb (rev (fst a)) (rev (fst b)).

Module SufOrder <: TotalLeBool.
  Definition t := suffix.
  Definition leb (a b : suffix) : bool := negb (suf_ltb b a).
  Theorem leb_total : forall a b, leb a b = true \/ leb b a = true.
  Proof.
    (* totality is not needed by the model; Sort only requires it to exist. Proved in TailFacts. *)
    intros a b. unfold leb, suf_ltb.
    assert (H : forall x y, lex_ltb schar_ltb x y = true -> lex_ltb schar_ltb y x = false).
    { induction x as [|p x IH]; intros [|q y]; simpl; try congruence.
      destruct (schar_ltb p q) eqn:E1; destruct (schar_ltb q p) eqn:E2; try congruence.
      - unfold schar_ltb in *. 
        destruct (p <? 128), (q <? 128);
        apply N.ltb_lt in E1; apply N.ltb_lt in E2; exfalso; eapply N.lt_asymm; eauto.
      - apply IH. }
    destruct (lex_ltb schar_ltb (rev (fst b)) (rev (fst a))) eqn:E.
    - right. rewrite (H _ _ E). reflexivity.
    - left. reflexivity.
  Qed.
End SufOrder.
Module SufSort := Sort SufOrder.

(* number of equal leading elements (of the reversed strings) *)
Fixpoint common_len (a b : list N) : N :=
  match a, b with
  | x :: a', y :: b' => if x =? y then 1 + common_len a' b' else 0
  | _, _ => 0
  end.

Record tb_st := mkTb { tb_chars : list N (* reversed *); tb_terms : list bool (* reversed *);
                       tb_len : N; tb_prev : key; tb_prev_tpos : N; tb_assign : list (N * N) (* reversed *) }.

Definition tb_step (bin : bool) (s : tb_st) (cur : suffix) : res tb_st :=
  let '(str, npos) := cur in
  match str with
  | [] => Exc EmptySuffix
  | _ =>
    let m := common_len (rev (tb_prev s)) (rev str) in
    let plen := lenN (tb_prev s) in
    if (m =? lenN str) && negb (plen =? 0) then
      let tpos := add64 (tb_prev_tpos s) (sub64 plen m) in
      Ok (mkTb (tb_chars s) (tb_terms s) (tb_len s) str tpos ((npos, tpos) :: tb_assign s))
    else
      let tpos := tb_len s in
      let chars := if bin then rev_append str (tb_chars s) else 0 :: rev_append str (tb_chars s) in
      let terms := if bin then true :: repeat false (length str - 1) ++ tb_terms s else tb_terms s in
      let len := if bin then tb_len s + lenN str else tb_len s + lenN str + 1 in
      Ok (mkTb chars terms len str tpos ((npos, tpos) :: tb_assign s))
  end.

(* complete(): sort by reversed string, process from the greatest down; slot 0 is the reserved empty suffix.
   Returns the tail vector and the (npos, tpos) setter calls in call order. *)
Definition tail_complete (bin : bool) (sufs : list suffix) : res (tailvec * list (N * N)) :=
  let sorted := SufSort.sort sufs in
  let init := mkTb [0] (if bin then [false] else []) 1 [] 0 [] in
  do s <- fold_left (fun acc cur => do st <- acc; tb_step bin st cur) (frev sorted) (Ok init);
  do tb <- bvb_of_bits (frev (tb_terms s));
  do terms <- bv_build tb false false;
  Ok (mkTail (of_list (frev (tb_chars s))) terms, frev (tb_assign s)).

(* set_suffix throws on an empty string *)
Definition tail_set_suffix (sufs : list suffix) (s : key) (npos : N) : res (list suffix) :=
  match s with [] => Exc EmptySuffix | _ => Ok (sufs ++ [(s, npos)]) end.

(* ---- queries.  [key] here is the remaining part of the probe (a string_view): reading at or
   beyond its length is a Fault ---- *)
Definition kget (q : key) (i : N) : res N :=
  match nthN q i with Some b => Ok b | None => Fault OobQuery end.

Fixpoint match_bin (fuel : nat) (t : tailvec) (q : key) (kpos tpos : N) : res bool :=
  match fuel with
  | O => Fault OutOfFuel
  | S f =>
    do k <- kget q kpos; do c <- aget (tv_chars t) tpos;
    if negb (k =? c) then Ok false else
    let kpos := kpos + 1 in
    do tm <- bv_get (tv_terms t) tpos;
    if tm then Ok (kpos =? lenN q) else
    let tpos := tpos + 1 in
    if kpos <? lenN q then match_bin f t q kpos tpos else Ok false
  end.

Fixpoint match_nul (fuel : nat) (t : tailvec) (q : key) (kpos tpos : N) : res bool :=
  match fuel with
  | O => Fault OutOfFuel
  | S f =>
    do c <- aget (tv_chars t) tpos;
    if c =? 0 then Ok false else
    do k <- kget q kpos;
    if negb (k =? c) then Ok false else
    let kpos := kpos + 1 in let tpos := tpos + 1 in
    if kpos <? lenN q then match_nul f t q kpos tpos
    else do c' <- aget (tv_chars t) tpos; Ok (c' =? 0)
  end.

Definition t_match (t : tailvec) (q : key) (tpos : N) : res bool :=
  match q with
  | [] => Ok (tpos =? 0)
  | _ =>
    if tpos =? 0 then Ok false            (* repaired F5: the reserved slot matches only the empty string *)
    else if tv_bin_mode t then match_bin (S (length q)) t q 0 tpos
    else match_nul (S (length q)) t q 0 tpos
  end.

Fixpoint pmatch_bin (fuel : nat) (t : tailvec) (q : key) (kpos tpos : N) : res (option N) :=
  match fuel with
  | O => Fault OutOfFuel
  | S f =>
    do k <- kget q kpos; do c <- aget (tv_chars t) tpos;
    if negb (k =? c) then Ok None else
    let kpos := kpos + 1 in
    do tm <- bv_get (tv_terms t) tpos;
    if tm then Ok (Some kpos) else
    let tpos := tpos + 1 in
    if kpos <? lenN q then pmatch_bin f t q kpos tpos
    else Ok None                          (* repaired F3: probe exhausted before the suffix ended *)
  end.

Fixpoint pmatch_nul (fuel : nat) (t : tailvec) (q : key) (kpos tpos : N) : res (option N) :=
  match fuel with
  | O => Fault OutOfFuel
  | S f =>
    do c <- aget (tv_chars t) tpos;
    if c =? 0 then Ok (Some kpos) else
    do k <- kget q kpos;
    if negb (k =? c) then Ok None else
    let kpos := kpos + 1 in let tpos := tpos + 1 in
    if kpos <? lenN q then pmatch_nul f t q kpos tpos
    else do c' <- aget (tv_chars t) tpos;        (* repaired F3 *)
         Ok (if c' =? 0 then Some kpos else None)
  end.

Definition t_prefix_match (t : tailvec) (q : key) (tpos : N) : res (option N) :=
  if tpos =? 0 then Ok (Some 0) else
  match q with
  | [] => Ok None
  | _ => if tv_bin_mode t then pmatch_bin (S (length q)) t q 0 tpos
         else pmatch_nul (S (length q)) t q 0 tpos
  end.

(* decode appends the stored suffix at tpos; the walk is bounded by the array length *)
Fixpoint dec_bin (fuel : nat) (t : tailvec) (tpos : N) : res key :=
  match fuel with
  | O => Fault OutOfFuel
  | S f => do c <- aget (tv_chars t) tpos; do tm <- bv_get (tv_terms t) tpos;
           if tm then Ok [c] else do r <- dec_bin f t (tpos + 1); Ok (c :: r)
  end.
Fixpoint dec_nul (fuel : nat) (t : tailvec) (tpos : N) : res key :=
  match fuel with
  | O => Fault OutOfFuel
  | S f => do c <- aget (tv_chars t) tpos;
           if c =? 0 then Ok [] else do r <- dec_nul f t (tpos + 1); Ok (c :: r)
  end.
Definition t_decode (t : tailvec) (tpos : N) : res key :=
  let fuel := S (N.to_nat (tv_size t)) in
  if tv_bin_mode t then (if tpos =? 0 then Ok [] else dec_bin fuel t tpos)
  else dec_nul fuel t tpos.
