(* TailFacts.v: correctness of the suffix store (Tail.v): proof of IfaceDac.TailSpec from the two
   bit-vector interface statements BvBuildSpec and BvGetSpec. *)
From Coq Require Import Lia ZifyN ZifyBool ZifyNat Arith PeanoNat Permutation Sorting.Mergesort.
From X Require Import Base Arr ArrFacts Consts BitToolsSpec BitToolsGen BitVector CompactVector Dac Tail
  Spec Iface IfaceDac.
Local Open Scope N_scope.

#[local] Arguments N.mul : simpl never.
#[local] Arguments N.add : simpl never.
#[local] Arguments N.shiftl : simpl never.
#[local] Arguments N.pow : simpl never.

(* ------------------------------------------------------------------ basics *)
Lemma bind_ok_inv {A B} (r : res A) (f : A -> res B) y :
  bind r f = Ok y -> exists a, r = Ok a /\ f a = Ok y.
Proof. destruct r; cbn [bind]; intros H; try discriminate. eauto. Qed.

Lemma lenN_app {A} (a b : list A) : lenN (a ++ b) = lenN a + lenN b.
Proof. unfold lenN. rewrite app_length. lia. Qed.
Lemma lenN_cons {A} (x : A) l : lenN (x :: l) = lenN l + 1.
Proof. unfold lenN. cbn [length]. lia. Qed.
Lemma lenN_nil {A} : lenN (@nil A) = 0.
Proof. reflexivity. Qed.
Lemma lenN_rev {A} (l : list A) : lenN (rev l) = lenN l.
Proof. unfold lenN. rewrite rev_length. reflexivity. Qed.

Lemma nth_error_mid {A} (l : list A) x r : nth_error (l ++ x :: r) (length l) = Some x.
Proof. rewrite nth_error_app2 by lia. rewrite Nat.sub_diag. reflexivity. Qed.

Lemma aget_mid (pre : list N) c post : aget (of_list (pre ++ c :: post)) (lenN pre) = Ok c.
Proof. rewrite aget_of_list. unfold lenN. rewrite Nat2N.id, nth_error_mid. reflexivity. Qed.

Lemma kget_mid (q0 : key) k q : kget (q0 ++ k :: q) (lenN q0) = Ok k.
Proof. unfold kget, nthN, lenN. rewrite Nat2N.id, nth_error_mid. reflexivity. Qed.

Lemma rev_repeat' {A} (x : A) n : rev (repeat x n) = repeat x n.
Proof.
  induction n as [|n IH]; [reflexivity|].
  cbn [repeat rev]. rewrite IH. clear IH.
  induction n as [|n IH]; [reflexivity|]. cbn [repeat app]. rewrite IH. reflexivity.
Qed.

Lemma pow64_pos : 0 < 2^64.
Proof. reflexivity. Qed.

Lemma w64_small x : x < 2^64 -> w64 x = x.
Proof. intros H. unfold w64, mask64. rewrite N.land_ones. apply N.mod_small. exact H. Qed.

Lemma add64_small a b : a + b < 2^64 -> add64 a b = a + b.
Proof. intros H. unfold add64. apply w64_small. exact H. Qed.

Lemma sub64_small a b : b <= a -> a < 2^64 -> sub64 a b = a - b.
Proof.
  intros H1 H2. unfold sub64. rewrite (w64_small b) by (eapply N.le_lt_trans; eauto).
  change (N.shiftl 1 64) with (2^64).
  pose proof pow64_pos as HP. set (M := 2^64) in *.
  replace (a + M - b) with ((a - b) + 1 * M) by lia.
  unfold w64, mask64. rewrite N.land_ones. fold M.
  rewrite N.mod_add by lia. apply N.mod_small. lia.
Qed.

Lemma Forall2_impl' {A B} (R1 R2 : A -> B -> Prop) l1 l2 :
  (forall a b, R1 a b -> R2 a b) -> Forall2 R1 l1 l2 -> Forall2 R2 l1 l2.
Proof. intros H F. induction F; constructor; auto. Qed.

(* unfolding equations of the fuelled loops *)
Lemma match_bin_S f t q kpos tpos : match_bin (S f) t q kpos tpos =
    do k <- kget q kpos; do c <- aget (tv_chars t) tpos;
    if negb (k =? c) then Ok false else
    do tm <- bv_get (tv_terms t) tpos;
    if tm then Ok (kpos + 1 =? lenN q) else
    if kpos + 1 <? lenN q then match_bin f t q (kpos + 1) (tpos + 1) else Ok false.
Proof. reflexivity. Qed.
Lemma match_nul_S f t q kpos tpos : match_nul (S f) t q kpos tpos =
    do c <- aget (tv_chars t) tpos;
    if c =? 0 then Ok false else
    do k <- kget q kpos;
    if negb (k =? c) then Ok false else
    if kpos + 1 <? lenN q then match_nul f t q (kpos + 1) (tpos + 1)
    else do c' <- aget (tv_chars t) (tpos + 1); Ok (c' =? 0).
Proof. reflexivity. Qed.
Lemma pmatch_bin_S f t q kpos tpos : pmatch_bin (S f) t q kpos tpos =
    do k <- kget q kpos; do c <- aget (tv_chars t) tpos;
    if negb (k =? c) then Ok None else
    do tm <- bv_get (tv_terms t) tpos;
    if tm then Ok (Some (kpos + 1)) else
    if kpos + 1 <? lenN q then pmatch_bin f t q (kpos + 1) (tpos + 1)
    else Ok None.
Proof. reflexivity. Qed.
Lemma pmatch_nul_S f t q kpos tpos : pmatch_nul (S f) t q kpos tpos =
    do c <- aget (tv_chars t) tpos;
    if c =? 0 then Ok (Some kpos) else
    do k <- kget q kpos;
    if negb (k =? c) then Ok None else
    if kpos + 1 <? lenN q then pmatch_nul f t q (kpos + 1) (tpos + 1)
    else do c' <- aget (tv_chars t) (tpos + 1);
         Ok (if c' =? 0 then Some (kpos + 1) else None).
Proof. reflexivity. Qed.
Lemma dec_bin_S f t tpos : dec_bin (S f) t tpos =
    do c <- aget (tv_chars t) tpos; do tm <- bv_get (tv_terms t) tpos;
    if tm then Ok [c] else do r <- dec_bin f t (tpos + 1); Ok (c :: r).
Proof. reflexivity. Qed.
Lemma dec_nul_S f t tpos : dec_nul (S f) t tpos =
    do c <- aget (tv_chars t) tpos;
    if c =? 0 then Ok [] else do r <- dec_nul f t (tpos + 1); Ok (c :: r).
Proof. reflexivity. Qed.

Lemma ltb_len_last (q0 : key) (k : N) : (lenN q0 + 1 <? lenN (q0 ++ [k])) = false.
Proof. rewrite lenN_app, lenN_cons, lenN_nil. apply N.ltb_ge. lia. Qed.
Lemma ltb_len_more (q0 : key) (k k2 : N) q : (lenN q0 + 1 <? lenN (q0 ++ k :: k2 :: q)) = true.
Proof. rewrite lenN_app, !lenN_cons. apply N.ltb_lt. lia. Qed.
Lemma eqb_len_last (q0 : key) (k : N) : (lenN q0 + 1 =? lenN (q0 ++ [k])) = true.
Proof. rewrite lenN_app, lenN_cons, lenN_nil. apply N.eqb_eq. lia. Qed.
Lemma eqb_len_more (q0 : key) (k k2 : N) q : (lenN q0 + 1 =? lenN (q0 ++ k :: k2 :: q)) = false.
Proof. rewrite lenN_app, !lenN_cons. apply N.eqb_neq. lia. Qed.

Lemma app_cons_assoc {A} (a : list A) x b : a ++ x :: b = (a ++ [x]) ++ b.
Proof. rewrite <- app_assoc. reflexivity. Qed.

(* ------------------------------------------------------------------ queries, NUL mode *)
Section QueriesNul.
Variable C : list N.
Variable terms : bitvec.
Notation T := (mkTail (of_list C) terms).

Lemma match_nul_ok : forall s q q0 pre post fuel,
  C = pre ++ s ++ 0 :: post -> ~ In 0 s -> q <> [] -> (length q <= fuel)%nat ->
  match_nul fuel T (q0 ++ q) (lenN q0) (lenN pre) = Ok (key_eqb q s).
Proof.
  induction s as [|c s IH]; intros q q0 pre post fuel HC Hz Hq Hf;
    (destruct q as [|k q]; [congruence|]); (destruct fuel as [|fuel]; [cbn [length] in Hf; lia|]);
    rewrite match_nul_S; cbn [tv_chars]; rewrite HC at 1; cbn [app].
  - rewrite aget_mid. cbn [bind]. rewrite N.eqb_refl. reflexivity.
  - rewrite aget_mid. cbn [bind].
    assert (Hc : c <> 0) by (intros E; apply Hz; left; auto).
    destruct (N.eqb_spec c 0) as [E|_]; [congruence|].
    rewrite kget_mid. cbn [bind key_eqb].
    destruct (N.eqb_spec k c) as [->|Hne]; cbn [negb andb]; [|reflexivity].
    assert (HC' : C = (pre ++ [c]) ++ s ++ 0 :: post) by (rewrite HC, <- app_assoc; reflexivity).
    assert (Hz' : ~ In 0 s) by (intros E; apply Hz; right; auto).
    replace (lenN pre + 1) with (lenN (pre ++ [c])) by (rewrite lenN_app, lenN_cons, lenN_nil; lia).
    destruct q as [|k2 q].
    + rewrite ltb_len_last. rewrite HC' at 1.
      destruct s as [|c2 s]; cbn [app]; rewrite aget_mid; cbn [bind key_eqb].
      * reflexivity.
      * destruct (N.eqb_spec c2 0) as [E|_]; [|reflexivity]. exfalso. apply Hz'. left. auto.
    + rewrite ltb_len_more.
      replace (lenN q0 + 1) with (lenN (q0 ++ [c])) by (rewrite lenN_app, lenN_cons, lenN_nil; lia).
      rewrite (app_cons_assoc q0 c).
      apply IH with (post := post); auto; [discriminate|cbn [length] in *; lia].
Qed.

Lemma pmatch_nul_ok : forall s q q0 pre post fuel,
  C = pre ++ s ++ 0 :: post -> ~ In 0 s -> q <> [] -> (length q <= fuel)%nat ->
  pmatch_nul fuel T (q0 ++ q) (lenN q0) (lenN pre)
  = Ok (if is_prefixb s q then Some (lenN q0 + lenN s) else None).
Proof.
  induction s as [|c s IH]; intros q q0 pre post fuel HC Hz Hq Hf;
    (destruct q as [|k q]; [congruence|]); (destruct fuel as [|fuel]; [cbn [length] in Hf; lia|]);
    rewrite pmatch_nul_S; cbn [tv_chars]; rewrite HC at 1; cbn [app].
  - rewrite aget_mid. cbn [bind is_prefixb]. rewrite N.eqb_refl, lenN_nil, N.add_0_r. reflexivity.
  - rewrite aget_mid. cbn [bind].
    assert (Hc : c <> 0) by (intros E; apply Hz; left; auto).
    destruct (N.eqb_spec c 0) as [E|_]; [congruence|].
    rewrite kget_mid. cbn [bind is_prefixb]. rewrite (N.eqb_sym c k).
    destruct (N.eqb_spec k c) as [->|Hne]; cbn [negb andb]; [|reflexivity].
    assert (HC' : C = (pre ++ [c]) ++ s ++ 0 :: post) by (rewrite HC, <- app_assoc; reflexivity).
    assert (Hz' : ~ In 0 s) by (intros E; apply Hz; right; auto).
    replace (lenN pre + 1) with (lenN (pre ++ [c])) by (rewrite lenN_app, lenN_cons, lenN_nil; lia).
    destruct q as [|k2 q].
    + rewrite ltb_len_last. rewrite HC' at 1.
      destruct s as [|c2 s]; cbn [app]; rewrite aget_mid; cbn [bind is_prefixb].
      * rewrite N.eqb_refl, lenN_cons, lenN_nil. do 2 f_equal.
      * destruct (N.eqb_spec c2 0) as [E|_]; [|reflexivity]. exfalso. apply Hz'. left. auto.
    + rewrite ltb_len_more.
      replace (lenN q0 + 1) with (lenN (q0 ++ [c])) by (rewrite lenN_app, lenN_cons, lenN_nil; lia).
      rewrite (app_cons_assoc q0 c).
      rewrite IH with (post := post); auto; [|discriminate|cbn [length] in *; lia].
      destruct (is_prefixb s (k2 :: q)); [|reflexivity].
      rewrite lenN_app, !lenN_cons, lenN_nil. do 2 f_equal. lia.
Qed.

Lemma dec_nul_ok : forall s pre post fuel,
  C = pre ++ s ++ 0 :: post -> ~ In 0 s -> (length s < fuel)%nat ->
  dec_nul fuel T (lenN pre) = Ok s.
Proof.
  induction s as [|c s IH]; intros pre post fuel HC Hz Hf;
    (destruct fuel as [|fuel]; [lia|]);
    rewrite dec_nul_S; cbn [tv_chars]; rewrite HC at 1; cbn [app]; rewrite aget_mid; cbn [bind].
  - rewrite N.eqb_refl. reflexivity.
  - assert (Hc : c <> 0) by (intros E; apply Hz; left; auto).
    destruct (N.eqb_spec c 0) as [E|_]; [congruence|].
    replace (lenN pre + 1) with (lenN (pre ++ [c])) by (rewrite lenN_app, lenN_cons, lenN_nil; lia).
    rewrite IH with (post := post); [reflexivity| | |cbn [length] in Hf; lia].
    + rewrite HC, <- app_assoc; reflexivity.
    + intros E; apply Hz; right; auto.
Qed.
End QueriesNul.

(* ------------------------------------------------------------------ queries, binary mode *)
Section QueriesBin.
Variable C : list N.
Variable Tm : list bool.
Variable terms : bitvec.
Hypothesis Hterms : forall i, i < lenN Tm -> bv_get terms i = Ok (nthb Tm i).
Notation T := (mkTail (of_list C) terms).

Lemma bvget_last (pre : list N) tpre tpost :
  Tm = tpre ++ true :: tpost -> length tpre = length pre -> bv_get terms (lenN pre) = Ok true.
Proof.
  intros HT HL. rewrite Hterms.
  - unfold nthb, lenN. rewrite Nat2N.id, <- HL, HT, nth_middle. reflexivity.
  - rewrite HT, lenN_app, lenN_cons. unfold lenN. lia.
Qed.
Lemma bvget_notlast (pre : list N) tpre rest :
  Tm = tpre ++ false :: rest -> length tpre = length pre -> bv_get terms (lenN pre) = Ok false.
Proof.
  intros HT HL. rewrite Hterms.
  - unfold nthb, lenN. rewrite Nat2N.id, <- HL, HT, nth_middle. reflexivity.
  - rewrite HT, lenN_app, lenN_cons. unfold lenN. lia.
Qed.

Lemma match_bin_ok : forall s q q0 pre post tpre tpost fuel,
  C = pre ++ s ++ post -> Tm = tpre ++ repeat false (length s - 1) ++ true :: tpost ->
  length tpre = length pre -> s <> [] -> q <> [] -> (length q <= fuel)%nat ->
  match_bin fuel T (q0 ++ q) (lenN q0) (lenN pre) = Ok (key_eqb q s).
Proof.
  induction s as [|c s IH]; intros q q0 pre post tpre tpost fuel HC HT HL Hs Hq Hf; [congruence|].
  destruct q as [|k q]; [congruence|]. destruct fuel as [|fuel]; [cbn [length] in Hf; lia|].
  rewrite match_bin_S; cbn [tv_chars tv_terms]. rewrite kget_mid. cbn [bind].
  rewrite HC at 1; cbn [app]. rewrite aget_mid. cbn [bind key_eqb].
  destruct (N.eqb_spec k c) as [->|Hne]; cbn [negb andb]; [|reflexivity].
  destruct s as [|c2 s].
  - cbn [length Nat.sub repeat app] in HT. rewrite (bvget_last pre tpre tpost HT HL). cbn [bind].
    destruct q as [|k2 q]; cbn [key_eqb].
    + rewrite eqb_len_last. reflexivity.
    + rewrite eqb_len_more. reflexivity.
  - replace (length (c :: c2 :: s) - 1)%nat with (S (length (c2 :: s) - 1)) in HT by (cbn [length]; lia).
    cbn [repeat app] in HT. rewrite (bvget_notlast pre tpre _ HT HL). cbn [bind].
    destruct q as [|k2 q].
    + rewrite ltb_len_last. reflexivity.
    + rewrite ltb_len_more.
      replace (lenN pre + 1) with (lenN (pre ++ [c])) by (rewrite lenN_app, lenN_cons, lenN_nil; lia).
      replace (lenN q0 + 1) with (lenN (q0 ++ [c])) by (rewrite lenN_app, lenN_cons, lenN_nil; lia).
      rewrite (app_cons_assoc q0 c).
      apply IH with (post := post) (tpre := tpre ++ [false]) (tpost := tpost).
      * rewrite HC, <- app_assoc. reflexivity.
      * rewrite HT, <- app_assoc. reflexivity.
      * rewrite !app_length, HL. reflexivity.
      * discriminate.
      * discriminate.
      * cbn [length] in *; lia.
Qed.

Lemma pmatch_bin_ok : forall s q q0 pre post tpre tpost fuel,
  C = pre ++ s ++ post -> Tm = tpre ++ repeat false (length s - 1) ++ true :: tpost ->
  length tpre = length pre -> s <> [] -> q <> [] -> (length q <= fuel)%nat ->
  pmatch_bin fuel T (q0 ++ q) (lenN q0) (lenN pre)
  = Ok (if is_prefixb s q then Some (lenN q0 + lenN s) else None).
Proof.
  induction s as [|c s IH]; intros q q0 pre post tpre tpost fuel HC HT HL Hs Hq Hf; [congruence|].
  destruct q as [|k q]; [congruence|]. destruct fuel as [|fuel]; [cbn [length] in Hf; lia|].
  rewrite pmatch_bin_S; cbn [tv_chars tv_terms]. rewrite kget_mid. cbn [bind].
  rewrite HC at 1; cbn [app]. rewrite aget_mid. cbn [bind is_prefixb]. rewrite (N.eqb_sym c k).
  destruct (N.eqb_spec k c) as [->|Hne]; cbn [negb andb]; [|reflexivity].
  destruct s as [|c2 s].
  - cbn [length Nat.sub repeat app] in HT. rewrite (bvget_last pre tpre tpost HT HL). cbn [bind is_prefixb].
    rewrite lenN_cons, lenN_nil. do 2 f_equal.
  - replace (length (c :: c2 :: s) - 1)%nat with (S (length (c2 :: s) - 1)) in HT by (cbn [length]; lia).
    cbn [repeat app] in HT. rewrite (bvget_notlast pre tpre _ HT HL). cbn [bind].
    destruct q as [|k2 q].
    + rewrite ltb_len_last. reflexivity.
    + rewrite ltb_len_more.
      replace (lenN pre + 1) with (lenN (pre ++ [c])) by (rewrite lenN_app, lenN_cons, lenN_nil; lia).
      replace (lenN q0 + 1) with (lenN (q0 ++ [c])) by (rewrite lenN_app, lenN_cons, lenN_nil; lia).
      rewrite (app_cons_assoc q0 c).
      rewrite IH with (post := post) (tpre := tpre ++ [false]) (tpost := tpost).
      * destruct (is_prefixb (c2 :: s) (k2 :: q)); [|reflexivity].
        rewrite lenN_app, !lenN_cons, lenN_nil. do 2 f_equal. lia.
      * rewrite HC, <- app_assoc. reflexivity.
      * rewrite HT, <- app_assoc. reflexivity.
      * rewrite !app_length, HL. reflexivity.
      * discriminate.
      * discriminate.
      * cbn [length] in *; lia.
Qed.

Lemma dec_bin_ok : forall s pre post tpre tpost fuel,
  C = pre ++ s ++ post -> Tm = tpre ++ repeat false (length s - 1) ++ true :: tpost ->
  length tpre = length pre -> s <> [] -> (length s <= fuel)%nat ->
  dec_bin fuel T (lenN pre) = Ok s.
Proof.
  induction s as [|c s IH]; intros pre post tpre tpost fuel HC HT HL Hs Hf; [congruence|].
  destruct fuel as [|fuel]; [cbn [length] in Hf; lia|].
  rewrite dec_bin_S; cbn [tv_chars tv_terms].
  rewrite HC at 1; cbn [app]. rewrite aget_mid. cbn [bind].
  destruct s as [|c2 s].
  - cbn [length Nat.sub repeat app] in HT. rewrite (bvget_last pre tpre tpost HT HL). reflexivity.
  - replace (length (c :: c2 :: s) - 1)%nat with (S (length (c2 :: s) - 1)) in HT by (cbn [length]; lia).
    cbn [repeat app] in HT. rewrite (bvget_notlast pre tpre _ HT HL). cbn [bind].
    replace (lenN pre + 1) with (lenN (pre ++ [c])) by (rewrite lenN_app, lenN_cons, lenN_nil; lia).
    rewrite IH with (post := post) (tpre := tpre ++ [false]) (tpost := tpost); [reflexivity|..].
    * rewrite HC, <- app_assoc. reflexivity.
    * rewrite HT, <- app_assoc. reflexivity.
    * rewrite !app_length, HL. reflexivity.
    * discriminate.
    * cbn [length] in *; lia.
Qed.
End QueriesBin.

(* ------------------------------------------------------------------ the builder *)
Definition stored_nul (C : list N) (tpos : N) (s : key) : Prop :=
  exists pre post, C = pre ++ s ++ 0 :: post /\ tpos = lenN pre /\ pre <> [].
Definition stored_bin (C : list N) (Tm : list bool) (tpos : N) (s : key) : Prop :=
  exists pre post tpre tpost, C = pre ++ s ++ post /\
    Tm = tpre ++ repeat false (length s - 1) ++ true :: tpost /\
    length tpre = length pre /\ tpos = lenN pre /\ pre <> [].
Definition stored (bin : bool) (C : list N) (Tm : list bool) (tpos : N) (s : key) : Prop :=
  if bin then stored_bin C Tm tpos s else stored_nul C tpos s.

Lemma stored_app bin C Tm tpos s X Y :
  stored bin C Tm tpos s -> stored bin (C ++ X) (Tm ++ Y) tpos s.
Proof.
  destruct bin; cbn [stored].
  - intros (pre & post & tpre & tpost & HC & HT & HL & Hp & Hn).
    exists pre, (post ++ X), tpre, (tpost ++ Y). refine (conj _ (conj _ (conj _ (conj _ _)))); auto.
    + rewrite HC, <- !app_assoc. reflexivity.
    + rewrite HT, <- !app_assoc. reflexivity.
  - intros (pre & post & HC & Hp & Hn).
    exists pre, (post ++ X). refine (conj _ (conj _ _)); auto.
    rewrite HC, <- !app_assoc. reflexivity.
Qed.

Lemma stored_bound bin C Tm tpos s : stored bin C Tm tpos s -> s <> [] ->
  0 < tpos /\ tpos + lenN s <= lenN C /\ tpos < lenN C.
Proof.
  assert (HP : forall pre : list N, pre <> [] -> 0 < lenN pre).
  { intros [|x p] H; [congruence|]. rewrite lenN_cons. lia. }
  intros H Hs. assert (0 < lenN s) by (destruct s; [congruence|rewrite lenN_cons; lia]).
  destruct bin; cbn [stored] in H.
  - destruct H as (pre & post & tpre & tpost & HC & HT & HL & Hp & Hn).
    apply HP in Hn. rewrite HC, !lenN_app, Hp. lia.
  - destruct H as (pre & post & HC & Hp & Hn).
    apply HP in Hn. rewrite HC, !lenN_app, lenN_cons, Hp. lia.
Qed.

(* an ending: prev = x ++ cur *)
Lemma stored_ending bin C Tm tpos x cur :
  stored bin C Tm tpos (x ++ cur) -> cur <> [] -> stored bin C Tm (tpos + lenN x) cur.
Proof.
  intros H Hc. destruct bin; cbn [stored] in *.
  - destruct H as (pre & post & tpre & tpost & HC & HT & HL & Hp & Hn).
    exists (pre ++ x), post, (tpre ++ repeat false (length x)), tpost. refine (conj _ (conj _ (conj _ (conj _ _)))).
    + rewrite HC, <- !app_assoc. reflexivity.
    + rewrite HT, <- !app_assoc. f_equal. rewrite app_assoc, <- repeat_app. do 2 f_equal.
      rewrite app_length. destruct cur; [congruence|]. cbn [length]. lia.
    + rewrite !app_length, repeat_length, HL. reflexivity.
    + rewrite lenN_app, Hp. reflexivity.
    + destruct pre; [congruence|discriminate].
  - destruct H as (pre & post & HC & Hp & Hn).
    exists (pre ++ x), post. refine (conj _ (conj _ _)).
    + rewrite HC, <- !app_assoc. reflexivity.
    + rewrite lenN_app, Hp. reflexivity.
    + destruct pre; [congruence|discriminate].
Qed.

Lemma common_len_full : forall b a, common_len a b = lenN b -> exists x, a = b ++ x.
Proof.
  induction b as [|y b IH]; intros a H.
  - exists a. reflexivity.
  - destruct a as [|x a]; cbn [common_len] in H.
    + rewrite lenN_cons in H. lia.
    + destruct (N.eqb_spec x y) as [->|Hne].
      * rewrite lenN_cons in H. destruct (IH a) as [z Hz]; [lia|]. exists z. rewrite Hz. reflexivity.
      * rewrite lenN_cons in H. lia.
Qed.

Definition asg_rel (bin : bool) (C : list N) (Tm : list bool) (a : N * N) (sn : suffix) : Prop :=
  fst a = snd sn /\ stored bin C Tm (snd a) (fst sn).

Record inv (bin : bool) (st : tb_st) (done : list suffix) : Prop := mkInv {
  inv_len : tb_len st = lenN (tb_chars st);
  inv_c0 : exists C', rev (tb_chars st) = 0 :: C';
  inv_tm : if bin then (exists T', rev (tb_terms st) = false :: T') /\
                       length (tb_terms st) = length (tb_chars st)
           else tb_terms st = [];
  inv_prev : tb_prev st <> [] ->
             stored bin (rev (tb_chars st)) (rev (tb_terms st)) (tb_prev_tpos st) (tb_prev st);
  inv_asg : Forall2 (asg_rel bin (rev (tb_chars st)) (rev (tb_terms st))) (tb_assign st) done }.

Definition tb_init (bin : bool) : tb_st := mkTb [0] (if bin then [false] else []) 1 [] 0 [].

Lemma inv_init bin : inv bin (tb_init bin) [].
Proof.
  constructor; cbn [tb_init tb_len tb_chars tb_terms tb_prev tb_prev_tpos tb_assign].
  - reflexivity.
  - exists []. reflexivity.
  - destruct bin; [split; [exists []; reflexivity|reflexivity]|reflexivity].
  - congruence.
  - constructor.
Qed.

Lemma tb_step_inv bin st done (str : key) npos :
  inv bin st done -> str <> [] -> tb_len st < 2^60 ->
  exists st', tb_step bin st (str, npos) = Ok st' /\ inv bin st' ((str, npos) :: done) /\
              tb_len st' <= tb_len st + lenN str + 1.
Proof.
  intros [Hlen [C' HC0] Htm Hprev Hasg] Hstr Hbound.
  unfold tb_step. destruct str as [|c0 str0] eqn:Estr; [congruence|]. rewrite <- Estr in *. clear Estr c0 str0.
  destruct ((common_len (rev (tb_prev st)) (rev str) =? lenN str) && negb (lenN (tb_prev st) =? 0)) eqn:Econd.
  - (* sharing *)
    apply andb_prop in Econd. destruct Econd as [E1 E2]. apply N.eqb_eq in E1.
    rewrite E1. apply negb_true_iff, N.eqb_neq in E2.
    assert (Hpne : tb_prev st <> []) by (intros E; rewrite E in E2; apply E2; reflexivity).
    specialize (Hprev Hpne).
    rewrite <- (lenN_rev str) in E1. apply common_len_full in E1. destruct E1 as [x Hx].
    apply (f_equal (@rev N)) in Hx. rewrite rev_involutive, rev_app_distr, rev_involutive in Hx.
    pose proof (stored_bound _ _ _ _ _ Hprev Hpne) as (Hb1 & Hb2 & Hb3).
    rewrite lenN_rev, <- Hlen in Hb2, Hb3.
    assert (Hsub : sub64 (lenN (tb_prev st)) (lenN str) = lenN (rev x)).
    { rewrite sub64_small; rewrite Hx, lenN_app in *; lia. }
    assert (Hadd : add64 (tb_prev_tpos st) (lenN (rev x)) = tb_prev_tpos st + lenN (rev x)).
    { apply add64_small. rewrite Hx, lenN_app in Hb2. lia. }
    rewrite Hsub, Hadd.
    assert (Hnew : stored bin (rev (tb_chars st)) (rev (tb_terms st)) (tb_prev_tpos st + lenN (rev x)) str).
    { apply stored_ending; [rewrite <- Hx; exact Hprev|exact Hstr]. }
    eexists. split; [reflexivity|]. split.
    + constructor; cbn [tb_len tb_chars tb_terms tb_prev tb_prev_tpos tb_assign]; auto.
      * exists C'; exact HC0.
      * constructor; [split; [reflexivity|exact Hnew]|exact Hasg].
    + cbn [tb_len]. lia.
  - (* append *)
    clear Econd.
    set (C := rev (tb_chars st)) in *. set (Tm := rev (tb_terms st)) in *.
    set (X := if bin then str else str ++ [0]).
    set (Y := if bin then repeat false (length str - 1) ++ [true] else []).
    assert (HCn : rev (if bin then rev_append str (tb_chars st) else 0 :: rev_append str (tb_chars st)) = C ++ X).
    { subst X C. destruct bin; cbn [rev]; rewrite rev_append_rev, rev_app_distr, rev_involutive.
      - reflexivity.
      - rewrite <- app_assoc. reflexivity. }
    assert (HTn : rev (if bin then true :: repeat false (length str - 1) ++ tb_terms st else tb_terms st) = Tm ++ Y).
    { subst Y Tm. destruct bin.
      - cbn [rev]. rewrite rev_app_distr, rev_repeat', <- app_assoc. reflexivity.
      - rewrite app_nil_r. reflexivity. }
    assert (HlenC : lenN C = tb_len st) by (subst C; rewrite lenN_rev; auto).
    assert (Hnew : stored bin (C ++ X) (Tm ++ Y) (tb_len st) str).
    { subst X Y. destruct bin; cbn [stored].
      - exists C, [], Tm, []. refine (conj _ (conj _ (conj _ (conj _ _)))).
        + rewrite app_nil_r. reflexivity.
        + reflexivity.
        + subst C Tm. rewrite !rev_length. destruct Htm as [_ Htm]. exact Htm.
        + symmetry; exact HlenC.
        + rewrite HC0. discriminate.
      - exists C, []. refine (conj _ (conj _ _)).
        + reflexivity.
        + symmetry; exact HlenC.
        + rewrite HC0. discriminate. }
    eexists. split; [reflexivity|]. split.
    + constructor; cbn [tb_len tb_chars tb_terms tb_prev tb_prev_tpos tb_assign].
      * destruct bin.
        -- rewrite rev_append_rev, lenN_app, lenN_rev, Hlen. lia.
        -- rewrite lenN_cons, rev_append_rev, lenN_app, lenN_rev, Hlen. lia.
      * rewrite HCn, HC0. exists (C' ++ X). reflexivity.
      * destruct bin.
        -- destruct Htm as [[T' HT'] HL]. split.
           ++ rewrite HTn. fold Tm in HT'. rewrite HT'. exists (T' ++ Y). reflexivity.
           ++ cbn [length]. rewrite rev_append_rev, !app_length, repeat_length, rev_length, HL.
              destruct str; [congruence|]. cbn [length]. lia.
        -- exact Htm.
      * intros _. rewrite HCn, HTn. exact Hnew.
      * rewrite HCn, HTn. constructor; [split; [reflexivity|exact Hnew]|].
        eapply Forall2_impl'; [|exact Hasg].
        intros a b [H1 H2]. split; [exact H1|]. apply stored_app. exact H2.
    + cbn [tb_len]. destruct bin; lia.
Qed.

Definition szsum (b : N) (l : list suffix) : N :=
  fold_right (fun sn acc => lenN (fst sn) + 1 + acc) b l.

Lemma szsum_base b l : szsum b l = szsum 0 l + b.
Proof. unfold szsum. induction l as [|x l IH]; cbn [fold_right]; [lia|]. rewrite IH. lia. Qed.

Lemma szsum_perm b l1 l2 : Permutation l1 l2 -> szsum b l1 = szsum b l2.
Proof.
  unfold szsum. induction 1; cbn [fold_right] in *.
  - reflexivity.
  - rewrite IHPermutation. reflexivity.
  - lia.
  - congruence.
Qed.

Lemma tb_fold_inv bin : forall l st done,
  inv bin st done -> Forall (fun sn : suffix => fst sn <> []) l -> tb_len st + szsum 0 l < 2^60 ->
  exists st', fold_left (fun acc cur => do s <- acc; tb_step bin s cur) l (Ok st) = Ok st' /\
     inv bin st' (rev l ++ done) /\ tb_len st' <= tb_len st + szsum 0 l.
Proof.
  induction l as [|[str npos] l IH]; intros st done Hinv Hne Hb.
  - exists st. cbn [fold_left rev app szsum fold_right]. split; [reflexivity|]. split; [exact Hinv|lia].
  - cbn [szsum fold_right fst] in Hb. fold (szsum 0 l) in Hb.
    inversion Hne as [|? ? Hs Hne']; subst. cbn [fst] in Hs.
    destruct (tb_step_inv bin st done str npos Hinv Hs) as (st1 & E1 & Hinv1 & Hl1); [lia|].
    cbn [fold_left bind]. rewrite E1.
    destruct (IH st1 ((str, npos) :: done) Hinv1 Hne') as (st' & E' & Hinv' & Hl'); [lia|].
    exists st'. split; [exact E'|]. split.
    + cbn [rev]. rewrite <- app_assoc. exact Hinv'.
    + cbn [szsum fold_right fst]. fold (szsum 0 l). lia.
Qed.

Lemma assoc_unique {A B} (l : list (A * B)) :
  NoDup (map fst l) -> forall a b b', In (a, b) l -> In (a, b') l -> b = b'.
Proof.
  induction l as [|[x y] l IH]; intros Hnd a b b' H1 H2; [contradiction|].
  cbn [map fst] in Hnd. inversion Hnd as [|? ? Hni Hnd']; subst.
  destruct H1 as [H1|H1], H2 as [H2|H2].
  - congruence.
  - inversion H1; subst. exfalso. apply Hni. apply (in_map fst) in H2. exact H2.
  - inversion H2; subst. exfalso. apply Hni. apply (in_map fst) in H1. exact H1.
  - eapply IH; eauto.
Qed.

Lemma Forall2_in_r {A B} (R : A -> B -> Prop) l1 l2 y :
  Forall2 R l1 l2 -> In y l2 -> exists x, In x l1 /\ R x y.
Proof.
  induction 1 as [|a b l1 l2 HR HF IH]; intros Hin; [contradiction|].
  destruct Hin as [<-|Hin].
  - exists a. split; [left; reflexivity|exact HR].
  - destruct (IH Hin) as (x & Hx & HRx). exists x. split; [right; exact Hx|exact HRx].
Qed.
Lemma Forall2_in_l {A B} (R : A -> B -> Prop) l1 l2 x :
  Forall2 R l1 l2 -> In x l1 -> exists y, In y l2 /\ R x y.
Proof.
  induction 1 as [|a b l1 l2 HR HF IH]; intros Hin; [contradiction|].
  destruct Hin as [<-|Hin].
  - exists b. split; [left; reflexivity|exact HR].
  - destruct (IH Hin) as (y & Hy & HRy). exists y. split; [right; exact Hy|exact HRy].
Qed.
Lemma Forall2_map_eq {A B C} (R : A -> B -> Prop) (f : A -> C) (g : B -> C) l1 l2 :
  (forall a b, R a b -> f a = g b) -> Forall2 R l1 l2 -> map f l1 = map g l2.
Proof. intros H F. induction F; cbn [map]; [reflexivity|]. f_equal; auto. Qed.

(* ------------------------------------------------------------------ queries at a stored suffix *)
Lemma stored_queries bin C Tm v s tpos :
  tv_bin_mode (mkTail (of_list C) v) = bin ->
  (forall i, i < lenN Tm -> bv_get v i = Ok (nthb Tm i)) ->
  stored bin C Tm tpos s -> s <> [] -> (bin = false -> ~ In 0 s) ->
  tpos <> 0 /\ tpos < tv_size (mkTail (of_list C) v) /\
  t_decode (mkTail (of_list C) v) tpos = Ok s /\
  forall q, t_match (mkTail (of_list C) v) q tpos = Ok (key_eqb q s) /\
            t_prefix_match (mkTail (of_list C) v) q tpos
            = Ok (if is_prefixb s q then Some (lenN s) else None).
Proof.
  intros Hmode Hterms Hst Hs Hz.
  destruct (stored_bound _ _ _ _ _ Hst Hs) as (Hb1 & Hb2 & Hb3).
  assert (Ht0 : (tpos =? 0) = false) by (apply N.eqb_neq; lia).
  split; [lia|]. split; [exact Hb3|].
  unfold t_decode, t_match, t_prefix_match. rewrite Hmode, Ht0.
  unfold tv_size. cbn [tv_chars]. rewrite alen_of_list, Nat2N.id.
  destruct bin; cbn [stored] in Hst.
  - destruct Hst as (pre & post & tpre & tpost & HC & HT & HL & Hp & Hn). subst tpos.
    split.
    + apply (dec_bin_ok C Tm v Hterms s pre post tpre tpost); auto.
      rewrite HC, !app_length. lia.
    + intros q. destruct q as [|k q].
      * destruct s; [congruence|]. split; reflexivity.
      * split.
        -- apply (match_bin_ok C Tm v Hterms s (k :: q) [] pre post tpre tpost); auto. discriminate.
        -- rewrite (pmatch_bin_ok C Tm v Hterms s (k :: q) [] pre post tpre tpost); auto.
           discriminate.
  - specialize (Hz eq_refl).
    destruct Hst as (pre & post & HC & Hp & Hn). subst tpos.
    split.
    + apply (dec_nul_ok C v s pre post); auto.
      rewrite HC, !app_length. cbn [length]. lia.
    + intros q. destruct q as [|k q].
      * destruct s; [congruence|]. split; reflexivity.
      * split.
        -- apply (match_nul_ok C v s (k :: q) [] pre post); auto. discriminate.
        -- rewrite (pmatch_nul_ok C v s (k :: q) [] pre post); auto.
           discriminate.
Qed.

(* ------------------------------------------------------------------ the main theorem *)
Section Main.
Hypothesis Hbuild : BvBuildSpec.
Hypothesis Hget : BvGetSpec.

Theorem tail_spec : TailSpec.
Proof.
  intros bin sufs Hok Hnd Hsz.
  unfold tail_complete. rewrite !frev_eq.
  set (l := rev (SufSort.sort sufs)).
  assert (Hperm : Permutation sufs (rev l)).
  { subst l. rewrite rev_involutive. apply SufSort.Permuted_sort. }
  assert (Hperm' : Permutation sufs l).
  { eapply Permutation_trans; [exact Hperm|]. apply Permutation_sym, Permutation_rev. }
  change (fold_right (fun sn acc => lenN (fst sn) + 1 + acc) 1 sufs) with (szsum 1 sufs) in Hsz.
  rewrite szsum_base, (szsum_perm 0 _ _ Hperm') in Hsz.
  assert (Hne : Forall (fun sn : suffix => fst sn <> []) l).
  { eapply Permutation_Forall; [exact Hperm'|].
    eapply Forall_impl; [|exact Hok]. intros a [H _]. exact H. }
  change (mkTb [0] (if bin then [false] else []) 1 [] 0 []) with (tb_init bin).
  destruct (tb_fold_inv bin l (tb_init bin) [] (inv_init bin) Hne) as (st & Efold & Hinv & Hlen).
  { cbn [tb_init tb_len]. lia. }
  rewrite Efold. cbn [bind]. rewrite ?frev_eq. rewrite app_nil_r in Hinv.
  cbn [tb_init tb_len] in Hlen.
  destruct Hinv as [Hl [C' HC0] Htm _ Hasg].
  set (C := rev (tb_chars st)) in *. set (Tm := rev (tb_terms st)) in *.
  assert (HlenC : lenN C = tb_len st) by (subst C; rewrite lenN_rev; auto).
  assert (HlenT : lenN Tm < max_bits).
  { subst Tm. rewrite lenN_rev. unfold max_bits. destruct bin.
    - destruct Htm as [_ HL]. unfold lenN. rewrite HL. fold (lenN (tb_chars st)). rewrite <- Hl.
      apply N.le_lt_trans with (2^60); [lia|reflexivity].
    - rewrite Htm. reflexivity. }
  destruct (Hbuild Tm false false HlenT) as (v & Ev & Hvs & _).
  pose proof (Hget Tm false false v) as Hgetv. specialize (fun i => Hgetv i HlenT Ev).
  unfold bv_of_bits in Ev. apply bind_ok_inv in Ev. destruct Ev as (b & Eb & Ev).
  rewrite Eb. cbn [bind]. rewrite Ev. cbn [bind].
  exists (mkTail (of_list C) v), (rev (tb_assign st)).
  split; [reflexivity|].
  assert (Hmode : tv_bin_mode (mkTail (of_list C) v) = bin).
  { unfold tv_bin_mode. cbn [tv_terms]. rewrite Hvs. destruct bin.
    - destruct Htm as [[T' HT'] _]. rewrite HT', lenN_cons.
      apply negb_true_iff, N.eqb_neq. lia.
    - subst Tm. rewrite Htm. reflexivity. }
  split; [exact Hmode|].
  split. { unfold tv_size. cbn [tv_chars]. rewrite alen_of_list. fold (lenN C). rewrite HC0, lenN_cons. lia. }
  split. { unfold tv_size. cbn [tv_chars]. rewrite alen_of_list. fold (lenN C). rewrite HlenC. lia. }
  split.
  { intros q _. unfold t_match, t_prefix_match. rewrite N.eqb_refl.
    destruct q; split; reflexivity. }
  split.
  { unfold t_decode. rewrite Hmode. destruct bin; [reflexivity|].
    rewrite dec_nul_S. cbn [tv_chars]. rewrite HC0.
    change (aget (of_list (0 :: C')) 0) with (aget (of_list ([] ++ 0 :: C')) (lenN (@nil N))).
    rewrite aget_mid. reflexivity. }
  split.
  { intros npos tpos Hin. apply in_rev in Hin.
    destruct (Forall2_in_l _ _ _ _ Hasg Hin) as ([s n] & Hy & Hr & _).
    cbn [fst snd] in Hr. subst n. exists s.
    eapply Permutation_in; [apply Permutation_sym; exact Hperm|exact Hy]. }
  intros s npos Hin.
  assert (Hin' : In (s, npos) (rev l)) by (eapply Permutation_in; [exact Hperm|exact Hin]).
  destruct (Forall2_in_r _ _ _ _ Hasg Hin') as ([n tpos] & Hx & Hr & Hst).
  cbn [fst snd] in Hr, Hst. subst n.
  rewrite Forall_forall in Hok. destruct (Hok _ Hin) as (Hs & _ & Hz). cbn [fst] in Hs, Hz.
  destruct (stored_queries bin C Tm v s tpos Hmode Hgetv Hst Hs Hz) as (Q1 & Q2 & Q3 & Q4).
  exists tpos. split; [apply -> in_rev; exact Hx|].
  split; [exact Q1|]. split; [exact Q2|]. split.
  - intros tpos' Hin2. apply in_rev in Hin2.
    eapply (assoc_unique (tb_assign st)); [|exact Hin2|exact Hx].
    rewrite (Forall2_map_eq _ fst snd _ _ (fun a b (H : asg_rel bin C Tm a b) => proj1 H) Hasg).
    eapply Permutation_NoDup; [|exact Hnd]. apply Permutation_map. exact Hperm.
  - split; [exact Q3|]. intros q _. apply Q4.
Qed.
End Main.

Check tail_spec.
Print Assumptions tail_spec.
