(* Tools.v: model of the six command-line tools of /repo/tools (xcdat_build, xcdat_lookup, xcdat_decode,
   xcdat_prefix_search, xcdat_predictive_search, xcdat_enumerate) as functions from the bytes of their
   inputs (key file / dictionary file / stdin) to the bytes they write (dictionary file / stdout).
   Executable; extracted to OCaml and run against the real binaries.  The statements are in ToolsFacts.v.

   Glue that is modelled as the simple function it is used as:
     cmd_line_parser   -t in {7,8,15,16} (default 8), -b in {0,1}, -n (default 10): the parsed values are
                       parameters (variant_of_id maps the -t number / the file tag to a variant);
     tinyformat        "%d\t%s\n" = unsigned decimal, TAB, the raw bytes, LF;
     mm::file_source   the whole dictionary file as a byte list, handed to Serial.mmap;
     std::getline      split_lines;   std::cin >> uint64   parse_ids;   std::sort + std::unique  sort_dedup.
   An uncaught C++ exception (empty key file) is Exc; "p.help(); return 1" on an unknown tag is
   Exc TypeMismatch.  Output is produced only when the whole run is defined (Ok). *)
From Coq Require Import Mergesort Orders.
From X Require Import Base Arr Dac Trie Serial Builder Spec.
Local Open Scope N_scope.

(* ---------------- std::getline(stream, str) until it fails ---------------- *)
(* [cur]: the bytes of the line being read, most recent first *)
Fixpoint split_go (cur : key) (s : list N) : list key :=
  match s with
  | [] => match cur with [] => [] | _ => [rev' cur] end          (* a last line without '\n' counts if non-empty *)
  | c :: t => if c =? 10 then rev' cur :: split_go [] t else split_go (c :: cur) t
  end.
Definition split_lines (s : list N) : list key := split_go [] s.

(* ---------------- std::sort + std::unique on std::string ---------------- *)
(* std::string compares with char_traits<char>::compare = memcmp: unsigned bytes, then length *)
Module KeyOrder <: TotalLeBool.
  Definition t := key.
  Definition leb (a b : key) : bool := negb (lex_lt b a).
  Lemma lex_lt_asym : forall a b, lex_lt a b = true -> lex_lt b a = false.
  Proof.
    induction a as [|x a IH]; destruct b as [|y b]; cbn [lex_lt]; try (intros; reflexivity || discriminate).
    destruct (x <? y) eqn:E1; destruct (y <? x) eqn:E2; try (intros; reflexivity || discriminate).
    - apply N.ltb_lt in E1. apply N.ltb_lt in E2. intros _. exfalso. exact (N.lt_asymm _ _ E1 E2).
    - apply IH.
  Qed.
  Theorem leb_total : forall a b, leb a b = true \/ leb b a = true.
  Proof.
    intros a b. unfold leb. destruct (lex_lt b a) eqn:E.
    - right. rewrite (lex_lt_asym _ _ E). reflexivity.
    - left. reflexivity.
  Qed.
End KeyOrder.
Module KeySort := Sort KeyOrder.

(* std::unique: keep one element of every run of equal neighbours *)
Fixpoint uniq (l : list key) : list key :=
  match l with
  | a :: ((b :: _) as t) => if key_eqb a b then uniq t else a :: uniq t
  | _ => l
  end.
Definition sort_dedup (ls : list key) : list key := uniq (KeySort.sort ls).

(* ---------------- "%d" of an unsigned integer ---------------- *)
(* decimal digits, least significant first; the fuel bounds the number of digits *)
Fixpoint dec_digits_le (fuel : nat) (n : N) : list N :=
  match fuel with
  | O => []
  | S f => (48 + n mod 10) :: (if n <? 10 then [] else dec_digits_le f (n / 10))
  end.
Definition fmt_dec (n : N) : list N := rev' (dec_digits_le (S (N.to_nat (N.log2 n))) n).
Definition fmt_row (id : N) (k : key) : list N := fmt_dec id ++ [9] ++ k ++ [10].
Definition miss_row (k : key) : list N := [45; 49; 9] ++ k ++ [10].                    (* "-1\t%s\n" *)
Definition found_line (n : N) : list N := fmt_dec n ++ [32; 102; 111; 117; 110; 100; 10].   (* "%d found\n" *)
Definition fmt_rows (r : list (N * key)) : list N := concat (map (fun ik => fmt_row (fst ik) (snd ik)) r).

(* ---------------- -t / the file tag ---------------- *)
Definition variant_of_id (t : N) : option variant :=
  if t =? 7 then Some V7 else if t =? 8 then Some V8 else if t =? 15 then Some V15
  else if t =? 16 then Some V16 else None.

(* ---------------- xcdat_build ---------------- *)
(* result: (bytes of the dictionary file, the sorted distinct keys).  With no line at all the trie
   constructor throws (the tool only prints a message before): build gives Exc EmptyDataset.
   [tbl] is the code-table oracle of Builder.build. *)
Definition tool_build (v : variant) (b : bool) (tbl : list N) (keyfile : list N) : res (list N * list key) :=
  let K := sort_dedup (split_lines keyfile) in
  do P <- build v tbl K b;
  Ok (save v P, K).

Definition str_nkeys : list N := [78;117;109;98;101;114;32;111;102;32;107;101;121;115;58;32].
Definition str_nnodes : list N := [78;117;109;98;101;114;32;111;102;32;116;114;105;101;32;110;111;100;101;115;58;32].
Definition str_nunits : list N := [78;117;109;98;101;114;32;111;102;32;68;65;32;117;110;105;116;115;58;32].
(* the first three lines of xcdat_build's stdout (the two "Memory usage" lines print a double) *)
Definition build_report (P : trie) : list N :=
  str_nkeys ++ fmt_dec (t_num_keys P) ++ [10] ++
  str_nnodes ++ fmt_dec (t_num_nodes P) ++ [10] ++
  str_nunits ++ fmt_dec (t_num_units P) ++ [10].

Definition tool_build_stdout (v : variant) (b : bool) (tbl : list N) (keyfile : list N) : res (list N) :=
  do P <- build v tbl (sort_dedup (split_lines keyfile)) b; Ok (build_report P).

(* ---------------- the query tools: tag dispatch and mmap ---------------- *)
Definition with_dic {A} (dic : list N) (f : variant -> trie -> res A) : res A :=
  do t <- get_type_id dic;
  match variant_of_id t with
  | Some v => do P <- mmap v dic; f v P
  | None => Exc TypeMismatch                          (* p.help(); return 1 *)
  end.

(* run [f] on every item in order and concatenate what it prints *)
Fixpoint each {A} (f : A -> res (list N)) (l : list A) : res (list N) :=
  match l with
  | [] => Ok []
  | a :: t => do x <- f a; do r <- each f t; Ok (x ++ r)
  end.

Definition tool_enumerate (dic : list N) : res (list N) :=
  with_dic dic (fun _ P => do r <- enumerate P; Ok (fmt_rows r)).

Definition tool_lookup (dic stdin : list N) : res (list N) :=
  with_dic dic (fun _ P =>
    each (fun q => do r <- lookup P q;
                   Ok (match r with Some id => fmt_row id q | None => miss_row q end))
         (split_lines stdin)).

(* ---------------- for (std::uint64_t id; std::cin >> id;) ---------------- *)
(* num_get<char>::do_get for an unsigned type (strtoull conventions, as libstdc++ and libc++ implement
   them): skip white space; an optional single '+' or '-'; a maximal non-empty run of decimal digits.
   No digit: failbit, the loop ends.  Value >= 2^64: failbit.  With '-' the value is negated modulo 2^64
   ("-1" reads as 18446744073709551615). *)
Definition two64 : N := 18446744073709551616.
Definition is_ws (c : N) : bool := (c =? 32) || ((9 <=? c) && (c <=? 13)).      (* isspace in the C locale *)
Definition is_digit (c : N) : bool := (48 <=? c) && (c <=? 57).
Inductive pstate :=
| PSkip                              (* skipping white space before a token *)
| PSign (neg : bool)                 (* a sign has been read, no digit yet *)
| PNum (neg : bool) (v : N).         (* inside the run of digits; v = value so far *)
Definition st_neg (st : pstate) : bool := match st with PSkip => false | PSign n | PNum n _ => n end.
Definition st_val (st : pstate) : N := match st with PNum _ v => v | _ => 0 end.
(* the value stored at the end of the run of digits; None = overflow *)
Definition pemit (neg : bool) (v : N) : option N :=
  if v <? two64 then Some (if neg then (if v =? 0 then 0 else two64 - v) else v) else None.
Fixpoint parse_go (st : pstate) (s : list N) : list N :=
  match s with
  | [] => match st with
          | PNum neg v => match pemit neg v with Some x => [x] | None => [] end
          | _ => []
          end
  | c :: t =>
    if is_digit c then parse_go (PNum (st_neg st) (10 * st_val st + (c - 48))) t
    else
      (* the next extraction starts at c *)
      let next (_ : Datatypes.unit) :=
        if is_ws c then parse_go PSkip t
        else if c =? 43 then parse_go (PSign false) t
        else if c =? 45 then parse_go (PSign true) t
        else [] in
      match st with
      | PSkip => next tt
      | PSign _ => []
      | PNum neg v => match pemit neg v with Some x => x :: next tt | None => [] end
      end
  end.
Definition parse_ids (stdin : list N) : list N := parse_go PSkip stdin.

Definition tool_decode (dic stdin : list N) : res (list N) :=
  with_dic dic (fun _ P => each (fun id => do k <- decode P id; Ok (fmt_row id k)) (parse_ids stdin)).

Definition tool_prefix (dic stdin : list N) : res (list N) :=
  with_dic dic (fun _ P =>
    each (fun q => do r <- prefix_search P q; Ok (found_line (lenN r) ++ fmt_rows r)) (split_lines stdin)).

(* the first min(n, |l|) elements, with a binary counter *)
Fixpoint take_n {A} (n : N) (l : list A) : list A :=
  match l with
  | [] => []
  | x :: t => if n =? 0 then [] else x :: take_n (N.pred n) t
  end.

Definition tool_predictive (dic stdin : list N) (maxn : N) : res (list N) :=
  with_dic dic (fun _ P =>
    each (fun q => do r <- predictive_search P q; Ok (found_line (lenN r) ++ fmt_rows (take_n maxn r)))
         (split_lines stdin)).
