(* ToolsFacts.v: the command-line tools of Tools.v agree with the library they wrap.
   Part 1, the glue:
     split_lines_bytes, split_lines_unlines(_last), split_lines_nil_inv      std::getline
     sort_dedup_set / _sorted / _valid / _nodup / _canonical / _id           std::sort + std::unique
     fmt_dec_digits / _nonempty / _value, parse_ids_unlines, parse_fmt_dec,
     parse_ids_overflow / _minus / _plus                                     "%d" and  cin >> uint64
     with_dic_save, with_dic_bad_tag                                         get_type_id + mmap dispatch
     tool_build_eq, tool_build_empty(_iff), tool_build_keys_valid            xcdat_build
   Part 2 (Section Tools; hypotheses LookupSpec, DecodeSpec, PrefixSpec, PredictiveSpec, each theorem
   depending only on the ones it uses), for wf_for v L P K, trie_fits v P and the file save v P:
     tool_enumerate_spec, tool_lookup_spec (+ tool_lookup_member), tool_decode_spec,
     tool_decode_lookup_inverse, tool_decode_out_of_range, tool_lookup_decode_roundtrip,
     tool_prefix_spec, tool_predictive_spec, build_report_spec (StatsSpec).
   Part 3 (Section Pipeline; BuildSpec, AssembleSpec): tool_build_wf, tool_build_enumerate.
   Then examples on Examples.ex_trie and Print Assumptions. *)
From Coq Require Import ZArith Lia ZifyN ZifyBool ZifyNat Arith PeanoNat Mergesort Sorted Permutation.
From X Require Import Base Arr Consts Dac Trie Serial Builder Spec Wf IfaceQuery SerialFacts HistoryFacts History
  IfaceBuild Examples Tools.
Local Open Scope N_scope.

#[local] Arguments N.mul : simpl never.
#[local] Arguments N.add : simpl never.
#[local] Arguments N.pow : simpl never.
#[local] Arguments N.div : simpl never.
#[local] Arguments N.modulo : simpl never.

(* ------------------------------------------------------------------ *)
(* the outcome monad                                                   *)
(* ------------------------------------------------------------------ *)
Lemma each_ok {A} (f : A -> res (list N)) (g : A -> list N) : forall l,
  (forall a, In a l -> f a = Ok (g a)) -> each f l = Ok (concat (map g l)).
Proof.
  induction l as [|a l IH]; intros H; [reflexivity|].
  cbn [each map concat]. rewrite (H a (or_introl eq_refl)). cbn [bind].
  rewrite IH by (intros b Hb; apply H; right; exact Hb). reflexivity.
Qed.

Lemma rev'_rev {A} (l : list A) : rev' l = rev l.
Proof. unfold rev'. symmetry. apply rev_alt. Qed.

(* ------------------------------------------------------------------ *)
(* std::getline                                                        *)
(* ------------------------------------------------------------------ *)
Definition bytes (s : list N) : Prop := Forall (fun b => b < 256) s.

Lemma bytes_ok_iff k : bytes_ok k = true <-> bytes k.
Proof.
  unfold bytes_ok, bytes. rewrite forallb_forall, Forall_forall. split; intros H b Hb.
  - apply N.ltb_lt. exact (H b Hb).
  - apply N.ltb_lt. exact (H b Hb).
Qed.

Lemma split_go_bytes : forall s cur, bytes cur -> bytes s ->
  Forall (fun k => bytes_ok k = true) (split_go cur s).
Proof.
  induction s as [|c t IH]; intros cur Hc Hs; cbn [split_go].
  - destruct cur as [|x cur]; [constructor|]. constructor; [|constructor].
    apply bytes_ok_iff. rewrite rev'_rev. unfold bytes. apply Forall_rev. exact Hc.
  - inversion Hs as [|? ? Hc1 Ht]; subst. destruct (c =? 10).
    + constructor.
      * apply bytes_ok_iff. rewrite rev'_rev. unfold bytes. apply Forall_rev. exact Hc.
      * apply IH; [constructor|exact Ht].
    + apply IH; [constructor; assumption|exact Ht].
Qed.

(* every line of a byte stream is a byte string *)
Lemma split_lines_bytes s : bytes s -> Forall (fun k => bytes_ok k = true) (split_lines s).
Proof. intros H. apply split_go_bytes; [constructor|exact H]. Qed.

Lemma split_go_line : forall l cur rest, ~ In 10 l ->
  split_go cur (l ++ 10 :: rest) = (rev cur ++ l) :: split_go [] rest.
Proof.
  induction l as [|c l IH]; intros cur rest Hl.
  - cbn [app split_go]. rewrite N.eqb_refl, rev'_rev, app_nil_r. reflexivity.
  - cbn [app split_go]. destruct (c =? 10) eqn:E.
    + apply N.eqb_eq in E. exfalso. apply Hl. left. exact E.
    + rewrite IH by (intros H; apply Hl; right; exact H). cbn [rev]. rewrite <- app_assoc. reflexivity.
Qed.

(* getline inverts "one line per key, each terminated by a newline" ... *)
Theorem split_lines_unlines : forall ls, (forall l, In l ls -> ~ In 10 l) ->
  split_lines (concat (map (fun l => l ++ [10]) ls)) = ls.
Proof.
  unfold split_lines. induction ls as [|l ls IH]; intros H; [reflexivity|].
  cbn [map concat]. rewrite <- app_assoc. cbn [app].
  rewrite split_go_line by (apply H; left; reflexivity). cbn [rev app]. f_equal.
  apply IH. intros l' Hl'. apply H. right. exact Hl'.
Qed.

Lemma split_go_last : forall l cur, ~ In 10 l -> rev cur ++ l <> [] -> split_go cur l = [rev cur ++ l].
Proof.
  induction l as [|c l IH]; intros cur Hl Hne.
  - cbn [split_go]. rewrite app_nil_r in *. destruct cur as [|x cur]; [exfalso; apply Hne; reflexivity|].
    rewrite rev'_rev. reflexivity.
  - cbn [split_go]. destruct (c =? 10) eqn:E.
    + apply N.eqb_eq in E. exfalso. apply Hl. left. exact E.
    + rewrite IH.
      * cbn [rev]. rewrite <- app_assoc. reflexivity.
      * intros H; apply Hl; right; exact H.
      * cbn [rev]. rewrite <- app_assoc. exact Hne.
Qed.

(* ... and a last line without the final newline counts when it is not empty *)
Theorem split_lines_unlines_last : forall ls l, (forall l, In l ls -> ~ In 10 l) -> ~ In 10 l -> l <> [] ->
  split_lines (concat (map (fun l => l ++ [10]) ls) ++ l) = ls ++ [l].
Proof.
  unfold split_lines. induction ls as [|l0 ls IH]; intros l H Hl Hne.
  - cbn [map concat app]. rewrite split_go_last; [reflexivity|exact Hl|exact Hne].
  - cbn [map concat]. rewrite <- !app_assoc. cbn [app].
    rewrite split_go_line by (apply H; left; reflexivity). cbn [rev app]. f_equal.
    apply IH; [|exact Hl|exact Hne]. intros l' Hl'. apply H. right. exact Hl'.
Qed.

Lemma split_lines_nil_inv : forall s, split_lines s = [] -> s = [].
Proof.
  unfold split_lines. intros s. assert (G : forall s cur, split_go cur s = [] -> s = [] /\ cur = []).
  { clear s. induction s as [|c t IH]; intros cur H; cbn [split_go] in H.
    - destruct cur; [split; reflexivity|discriminate].
    - destruct (c =? 10); [discriminate|]. destruct (IH _ H) as [_ H']. discriminate. }
  intros H. exact (proj1 (G s [] H)).
Qed.

(* ------------------------------------------------------------------ *)
(* the order of std::string                                            *)
(* ------------------------------------------------------------------ *)
Lemma tl_lex_irrefl a : lex_lt a a = false.
Proof. induction a as [|x a IH]; cbn [lex_lt]; [reflexivity|]. rewrite N.ltb_irrefl. exact IH. Qed.

Lemma tl_lex_total : forall a b, lex_lt a b = false -> lex_lt b a = false -> a = b.
Proof.
  induction a as [|x a IH]; destruct b as [|y b]; cbn [lex_lt]; intros H1 H2; try reflexivity; try discriminate.
  destruct (x <? y) eqn:E1; [discriminate|]. destruct (y <? x) eqn:E2; [discriminate|].
  apply N.ltb_ge in E1. apply N.ltb_ge in E2. f_equal; [lia|]. apply IH; assumption.
Qed.

Lemma tl_key_eqb_eq : forall a b, key_eqb a b = true <-> a = b.
Proof.
  induction a as [|x a IH]; destruct b as [|y b]; cbn [key_eqb]; split; intros H;
    try reflexivity; try discriminate.
  - apply andb_true_iff in H. destruct H as [H1 H2]. apply N.eqb_eq in H1. apply IH in H2. congruence.
  - injection H as -> ->. rewrite N.eqb_refl. cbn [andb]. apply IH. reflexivity.
Qed.

(* ------------------------------------------------------------------ *)
(* std::unique after std::sort                                         *)
(* ------------------------------------------------------------------ *)
Lemma uniq_cons a t : uniq (a :: t) =
  match t with [] => [a] | b :: _ => if key_eqb a b then uniq t else a :: uniq t end.
Proof. destruct t; reflexivity. Qed.

Lemma uniq_head : forall t a, exists r, uniq (a :: t) = a :: r.
Proof.
  induction t as [|b t IH]; intros a; rewrite uniq_cons; [eexists; reflexivity|].
  destruct (key_eqb a b) eqn:E; [|eexists; reflexivity].
  apply tl_key_eqb_eq in E. subst b. apply IH.
Qed.

Lemma uniq_in : forall l k, In k (uniq l) <-> In k l.
Proof.
  induction l as [|a t IH]; intros k; [reflexivity|]. rewrite uniq_cons. destruct t as [|b t'].
  - reflexivity.
  - destruct (key_eqb a b) eqn:E.
    + apply tl_key_eqb_eq in E. subst b. rewrite IH. cbn [In]. tauto.
    + cbn [In]. rewrite IH. cbn [In]. tauto.
Qed.

Lemma uniq_sorted : forall l, LocallySorted (fun a b => is_true (negb (lex_lt b a))) l ->
  strictly_sorted (uniq l) = true.
Proof.
  intros l H. induction H as [|a|a b l H IH Hab].
  - reflexivity.
  - reflexivity.
  - rewrite uniq_cons. destruct (key_eqb a b) eqn:E; [exact IH|].
    destruct (uniq_head l b) as [r Hr]. rewrite Hr in *.
    change (strictly_sorted (a :: b :: r)) with (lex_lt a b && strictly_sorted (b :: r)).
    rewrite IH, andb_true_r.
    destruct (lex_lt a b) eqn:E1; [reflexivity|]. exfalso.
    unfold is_true in Hab. apply negb_true_iff in Hab.
    assert (a = b) by (apply tl_lex_total; assumption). subst b.
    assert (key_eqb a a = true) by (apply tl_key_eqb_eq; reflexivity). congruence.
Qed.

(* the dictionary is built from exactly the distinct lines ... *)
Theorem sort_dedup_set : forall ls k, In k (sort_dedup ls) <-> In k ls.
Proof.
  intros ls k. unfold sort_dedup. rewrite uniq_in. split; intros H.
  - apply (Permutation_in k (Permutation_sym (KeySort.Permuted_sort ls))). exact H.
  - apply (Permutation_in k (KeySort.Permuted_sort ls)). exact H.
Qed.

Theorem sort_dedup_sorted : forall ls, strictly_sorted (sort_dedup ls) = true.
Proof. intros ls. unfold sort_dedup. apply uniq_sorted. apply KeySort.LocallySorted_sort. Qed.

(* ... in strictly ascending order: what Builder.build requires *)
Theorem sort_dedup_valid : forall ls, ls <> [] -> Forall (fun k => bytes_ok k = true) ls ->
  valid_keys (sort_dedup ls) = true.
Proof.
  intros ls Hne Hb. unfold valid_keys. destruct (sort_dedup ls) as [|k0 r] eqn:E.
  - exfalso. destruct ls as [|k ls]; [apply Hne; reflexivity|].
    assert (H : In k (sort_dedup (k :: ls))) by (apply sort_dedup_set; left; reflexivity).
    rewrite E in H. exact H.
  - rewrite <- E. rewrite sort_dedup_sorted. cbn [andb]. apply forallb_forall. intros k Hk.
    apply (proj1 (sort_dedup_set _ _)) in Hk. rewrite Forall_forall in Hb. apply Hb. exact Hk.
Qed.

(* a strictly ascending list is determined by its elements ... *)
Lemma sorted_unique : forall K1 K2, strictly_sorted K1 = true -> strictly_sorted K2 = true ->
  (forall k, In k K1 <-> In k K2) -> K1 = K2.
Proof.
  induction K1 as [|a K1 IH]; intros K2 H1 H2 Hin.
  - destruct K2 as [|b K2]; [reflexivity|]. exfalso. apply (proj2 (Hin b)). left. reflexivity.
  - destruct K2 as [|b K2]; [exfalso; apply (proj1 (Hin a)); left; reflexivity|].
    destruct (sorted_head_lt K1 a H1) as [H1' Ha]. destruct (sorted_head_lt K2 b H2) as [H2' Hb].
    assert (Hab : a = b).
    { destruct (proj1 (Hin a) (or_introl eq_refl)) as [E|Ea]; [symmetry; exact E|].
      destruct (proj2 (Hin b) (or_introl eq_refl)) as [E|Eb]; [exact E|].
      exfalso. apply Hb in Ea. apply Ha in Eb. apply KeyOrder.lex_lt_asym in Ea. congruence. }
    subst b. f_equal. apply IH; [exact H1'|exact H2'|].
    intros k. split; intros Hk.
    + destruct (proj1 (Hin k) (or_intror Hk)) as [E|E]; [|exact E].
      subst k. apply Ha in Hk. rewrite lex_lt_irrefl in Hk. discriminate.
    + destruct (proj2 (Hin k) (or_intror Hk)) as [E|E]; [|exact E].
      subst k. apply Hb in Hk. rewrite lex_lt_irrefl in Hk. discriminate.
Qed.

(* ... so sort_dedup is the only such arrangement of the lines, and a key file that is already sorted
   and free of duplicates is taken as it is *)
Theorem sort_dedup_canonical : forall ls K, strictly_sorted K = true -> (forall k, In k K <-> In k ls) ->
  sort_dedup ls = K.
Proof.
  intros ls K HK Hin. apply sorted_unique; [apply sort_dedup_sorted|exact HK|].
  intros k. rewrite sort_dedup_set. symmetry. apply Hin.
Qed.

Corollary sort_dedup_id : forall K, strictly_sorted K = true -> sort_dedup K = K.
Proof. intros K H. apply sort_dedup_canonical; [exact H|]. intros k. reflexivity. Qed.

Lemma sort_dedup_nil : sort_dedup [] = [].
Proof. reflexivity. Qed.

Theorem sort_dedup_nodup : forall ls, NoDup (sort_dedup ls).
Proof.
  intros ls. apply sorted_nodup. apply sort_dedup_sorted.
Qed.

(* ------------------------------------------------------------------ *)
(* "%d" and  std::cin >> id                                            *)
(* ------------------------------------------------------------------ *)
Ltac Zify.zify_post_hook ::= Z.div_mod_to_equations.

Definition digitb (c : N) : Prop := is_digit c = true.
(* value of a digit string given least significant digit first *)
Definition value_le (l : list N) : N := fold_right (fun d acc => 10 * acc + (d - 48)) 0 l.

Lemma dec_digits_spec : forall fuel n, fuel <> O -> n < 2 ^ N.of_nat fuel ->
  dec_digits_le fuel n <> [] /\ Forall digitb (dec_digits_le fuel n) /\ value_le (dec_digits_le fuel n) = n.
Proof.
  induction fuel as [|f IH]; intros n Hf Hn.
  - exfalso. apply Hf. reflexivity.
  - cbn [dec_digits_le]. split; [discriminate|].
    assert (Hd : digitb (48 + n mod 10)).
    { unfold digitb, is_digit. apply andb_true_iff. split; apply N.leb_le; lia. }
    destruct (n <? 10) eqn:E.
    + apply N.ltb_lt in E. split; [constructor; [exact Hd|constructor]|].
      unfold value_le. cbn [fold_right]. rewrite N.mod_small by exact E. lia.
    + apply N.ltb_ge in E.
      assert (Hn' : n / 10 < 2 ^ N.of_nat f).
      { rewrite Nat2N.inj_succ, N.pow_succ_r' in Hn. set (p := 2 ^ N.of_nat f) in *. clearbody p. lia. }
      assert (Hf' : f <> O).
      { intros ->. change (2 ^ N.of_nat 1) with 2 in Hn. lia. }
      destruct (IH _ Hf' Hn') as (_ & Hall & Hval).
      split; [constructor; assumption|].
      unfold value_le in *. cbn [fold_right]. rewrite Hval. lia.
Qed.

Lemma fmt_dec_fuel n : n < 2 ^ N.of_nat (S (N.to_nat (N.log2 n))).
Proof.
  rewrite Nat2N.inj_succ, N2Nat.id. destruct (N.eq_dec n 0) as [->|Hn].
  - reflexivity.
  - apply N.log2_spec. lia.
Qed.

Lemma fmt_dec_rev n : fmt_dec n = rev (dec_digits_le (S (N.to_nat (N.log2 n))) n).
Proof. unfold fmt_dec. apply rev'_rev. Qed.

Lemma fmt_dec_digits n : Forall digitb (fmt_dec n).
Proof.
  rewrite fmt_dec_rev. apply Forall_rev. exact (proj1 (proj2 (dec_digits_spec _ _ (Nat.neq_succ_0 _) (fmt_dec_fuel n)))).
Qed.

Lemma fmt_dec_nonempty n : fmt_dec n <> [].
Proof.
  rewrite fmt_dec_rev. intros H. apply (f_equal (@rev N)) in H. rewrite rev_involutive in H. cbn [rev] in H.
  exact (proj1 (dec_digits_spec _ _ (Nat.neq_succ_0 _) (fmt_dec_fuel n)) H).
Qed.

(* the value of a digit string, most significant digit first, continuing from v *)
Definition value_from (v : N) (ds : list N) : N := fold_left (fun v d => 10 * v + (d - 48)) ds v.

Lemma fmt_dec_value n : value_from 0 (fmt_dec n) = n.
Proof.
  rewrite fmt_dec_rev. unfold value_from.
  rewrite <- (fold_left_rev_right (fun d acc => 10 * acc + (d - 48))). rewrite rev_involutive.
  exact (proj2 (proj2 (dec_digits_spec _ _ (Nat.neq_succ_0 _) (fmt_dec_fuel n)))).
Qed.

Lemma fmt_dec_0 : fmt_dec 0 = [48]. Proof. reflexivity. Qed.

(* reading a non-empty run of digits *)
Lemma parse_go_digits : forall ds d st rest, digitb d -> Forall digitb ds ->
  parse_go st ((d :: ds) ++ rest) = parse_go (PNum (st_neg st) (value_from (st_val st) (d :: ds))) rest.
Proof.
  induction ds as [|d' ds IH]; intros d st rest Hd Hds.
  - cbn [app parse_go]. unfold digitb in Hd. rewrite Hd. reflexivity.
  - pose proof (Forall_inv Hds) as Hd'. pose proof (Forall_inv_tail Hds) as Hds'.
    change ((d :: d' :: ds) ++ rest) with (d :: ((d' :: ds) ++ rest)).
    cbn [parse_go]. unfold digitb in Hd. rewrite Hd.
    rewrite IH by assumption. reflexivity.
Qed.

Lemma is_digit_10 : is_digit 10 = false. Proof. reflexivity. Qed.
Lemma is_ws_10 : is_ws 10 = true. Proof. reflexivity. Qed.
Lemma two64_eq : two64 = 2 ^ 64. Proof. reflexivity. Qed.

Lemma parse_go_fmt_gen st i c rest : is_digit c = false ->
  parse_go st (fmt_dec i ++ c :: rest) = parse_go (PNum (st_neg st) (value_from (st_val st) (fmt_dec i))) (c :: rest).
Proof.
  intros Hnd. assert (Hds := fmt_dec_digits i). assert (Hne := fmt_dec_nonempty i).
  destruct (fmt_dec i) as [|d ds]; [exfalso; apply Hne; reflexivity|].
  pose proof (Forall_inv Hds) as Hd. pose proof (Forall_inv_tail Hds) as Hds'.
  apply parse_go_digits; assumption.
Qed.

(* an id printed with %d followed by white space is read back by cin >> id, and the loop goes on *)
Lemma parse_go_fmt i c rest : i < 2 ^ 64 -> is_ws c = true -> is_digit c = false ->
  parse_go PSkip (fmt_dec i ++ c :: rest) = i :: parse_go PSkip rest.
Proof.
  intros Hi Hws Hnd. rewrite parse_go_fmt_gen by exact Hnd. cbn [st_neg st_val]. rewrite fmt_dec_value.
  cbn [parse_go]. rewrite Hnd, Hws. unfold pemit.
  rewrite <- two64_eq in Hi. apply N.ltb_lt in Hi. rewrite Hi. reflexivity.
Qed.

(* parse o print round trip on whole inputs: one id per line *)
Theorem parse_ids_unlines : forall ids, Forall (fun i => i < 2 ^ 64) ids ->
  parse_ids (concat (map (fun i => fmt_dec i ++ [10]) ids)) = ids.
Proof.
  unfold parse_ids. induction ids as [|i ids IH]; intros H; [reflexivity|].
  inversion H as [|? ? Hi H']; subst. cbn [map concat]. rewrite <- app_assoc. cbn [app].
  rewrite parse_go_fmt by (assumption || reflexivity). f_equal. apply IH. exact H'.
Qed.

Theorem parse_fmt_dec i : i < 2 ^ 64 -> parse_ids (fmt_dec i ++ [10]) = [i].
Proof.
  intros Hi. unfold parse_ids. rewrite parse_go_fmt by (assumption || reflexivity). reflexivity.
Qed.

(* a number that does not fit 64 bits stops the loop *)
Lemma parse_ids_overflow i rest : 2 ^ 64 <= i -> parse_ids (fmt_dec i ++ 10 :: rest) = [].
Proof.
  intros Hi. unfold parse_ids. rewrite parse_go_fmt_gen by reflexivity. cbn [st_neg st_val].
  rewrite fmt_dec_value. cbn [parse_go]. rewrite is_digit_10. unfold pemit.
  rewrite <- two64_eq in Hi. apply N.ltb_ge in Hi. rewrite Hi. reflexivity.
Qed.

(* "-i" reads as 2^64 - i (strtoull), "+i" as i *)
Lemma parse_ids_minus i : 0 < i < 2 ^ 64 -> parse_ids ([45] ++ fmt_dec i ++ [10]) = [2 ^ 64 - i].
Proof.
  intros [H0 Hi]. unfold parse_ids. cbn [app parse_go].
  change (is_digit 45) with false. change (is_ws 45) with false. change (45 =? 43) with false.
  change (45 =? 45) with true. cbv iota beta.
  rewrite parse_go_fmt_gen by reflexivity. cbn [st_neg st_val]. rewrite fmt_dec_value.
  cbn [parse_go]. rewrite is_digit_10, is_ws_10. unfold pemit.
  rewrite <- two64_eq in *. apply N.ltb_lt in Hi. rewrite Hi.
  assert (E : (i =? 0) = false) by (apply N.eqb_neq; lia). rewrite E. reflexivity.
Qed.

Lemma parse_ids_plus i : i < 2 ^ 64 -> parse_ids ([43] ++ fmt_dec i ++ [10]) = [i].
Proof.
  intros Hi. unfold parse_ids. cbn [app parse_go].
  change (is_digit 43) with false. change (is_ws 43) with false. change (43 =? 43) with true.
  cbv iota beta.
  rewrite parse_go_fmt_gen by reflexivity. cbn [st_neg st_val]. rewrite fmt_dec_value.
  cbn [parse_go]. rewrite is_digit_10, is_ws_10. unfold pemit.
  rewrite <- two64_eq in *. apply N.ltb_lt in Hi. rewrite Hi. reflexivity.
Qed.

(* ------------------------------------------------------------------ *)
(* small list facts                                                    *)
(* ------------------------------------------------------------------ *)
Lemma take_n_firstn {A} : forall (l : list A) n, take_n n l = firstn (N.to_nat n) l.
Proof.
  induction l as [|x l IH]; intros n; cbn [take_n].
  - rewrite firstn_nil. reflexivity.
  - destruct (n =? 0) eqn:E.
    + apply N.eqb_eq in E. subst n. reflexivity.
    + apply N.eqb_neq in E. replace (N.to_nat n) with (S (N.to_nat (N.pred n))) by lia.
      cbn [firstn]. f_equal. apply IH.
Qed.

Lemma with_ids_lenN P r : lenN (with_ids P r) = lenN r.
Proof. unfold with_ids, lenN. rewrite map_length. reflexivity. Qed.

Lemma tl_completions_nil K : spec_completions K [] = K.
Proof.
  unfold spec_completions. induction K as [|k K IH]; cbn [filter is_prefixb]; [reflexivity|].
  f_equal. exact IH.
Qed.

(* ------------------------------------------------------------------ *)
(* the tag dispatch                                                    *)
(* ------------------------------------------------------------------ *)
Lemma variant_of_type_id v : variant_of_id (type_id v) = Some v.
Proof. destruct v; reflexivity. Qed.

Lemma variant_of_id_inv t v : variant_of_id t = Some v -> t = type_id v.
Proof.
  unfold variant_of_id.
  destruct (t =? 7) eqn:E7; [apply N.eqb_eq in E7; intros H; injection H as <-; exact E7|].
  destruct (t =? 8) eqn:E8; [apply N.eqb_eq in E8; intros H; injection H as <-; exact E8|].
  destruct (t =? 15) eqn:E15; [apply N.eqb_eq in E15; intros H; injection H as <-; exact E15|].
  destruct (t =? 16) eqn:E16; [apply N.eqb_eq in E16; intros H; injection H as <-; exact E16|].
  discriminate.
Qed.

(* on a file written by save, every query tool works on the saved dictionary *)
Lemma with_dic_save {A} v P (f : variant -> trie -> res A) : trie_fits v P ->
  with_dic (save v P) f = f v P.
Proof.
  intros Hfit. unfold with_dic. rewrite (proj2 (save_tag v P)). cbn [bind].
  rewrite variant_of_type_id.
  rewrite <- (app_nil_r (save v P)) at 1. rewrite (mmap_save v P [] Hfit). reflexivity.
Qed.

(* a file whose tag is none of 7, 8, 15, 16: help text, exit status 1 *)
Lemma with_dic_bad_tag {A} dic t (f : variant -> trie -> res A) :
  get_type_id dic = Ok t -> t <> 7 -> t <> 8 -> t <> 15 -> t <> 16 -> with_dic dic f = Exc TypeMismatch.
Proof.
  intros H H7 H8 H15 H16. unfold with_dic. rewrite H. cbn [bind]. unfold variant_of_id.
  apply N.eqb_neq in H7, H8, H15, H16. rewrite H7, H8, H15, H16. reflexivity.
Qed.

(* ------------------------------------------------------------------ *)
(* xcdat_build                                                         *)
(* ------------------------------------------------------------------ *)
(* the dictionary is built from the sorted distinct lines of the key file and saved *)
Theorem tool_build_eq v b tbl f :
  tool_build v b tbl f =
  (do P <- build v tbl (sort_dedup (split_lines f)) b; Ok (save v P, sort_dedup (split_lines f))).
Proof. reflexivity. Qed.

(* a key file without any line (the empty file): the uncaught "empty dataset" exception *)
Theorem tool_build_empty v b tbl : tool_build v b tbl [] = Exc EmptyDataset.
Proof. reflexivity. Qed.

Theorem tool_build_empty_iff v b tbl f : split_lines f = [] -> tool_build v b tbl f = Exc EmptyDataset.
Proof. intros H. apply split_lines_nil_inv in H. subst f. reflexivity. Qed.

(* the key list handed to the builder is valid whenever the file has at least one line *)
Theorem tool_build_keys_valid f : bytes f -> f <> [] ->
  valid_keys (sort_dedup (split_lines f)) = true /\
  (forall k, In k (sort_dedup (split_lines f)) <-> In k (split_lines f)).
Proof.
  intros Hb Hne. split; [|intros k; apply sort_dedup_set].
  apply sort_dedup_valid; [|apply split_lines_bytes; exact Hb].
  intros H. apply Hne. apply split_lines_nil_inv. exact H.
Qed.

(* ------------------------------------------------------------------ *)
(* the query tools on a saved well-formed dictionary                   *)
(* ------------------------------------------------------------------ *)
Section Tools.
Hypothesis Hlook : LookupSpec.
Hypothesis Hdec : DecodeSpec.
Hypothesis Hpfx : PrefixSpec.
Hypothesis Hpred : PredictiveSpec.

Section Fixed.
Variables (v : variant) (L : logical) (P : trie) (K : list key).
Hypothesis Hwf : wf_for v L P K.
Hypothesis Hfits : trie_fits v P.

(* xcdat_enumerate prints exactly the keys of K, once each, in ascending order, with lookup's ids *)
Theorem tool_enumerate_spec :
  tool_enumerate (save v P) = Ok (concat (map (fun ik => fmt_row (fst ik) (snd ik)) (with_ids P K))).
Proof.
  unfold tool_enumerate. rewrite (with_dic_save v P _ Hfits).
  unfold enumerate. rewrite (proj2 (Hpred v L P K Hwf [] eq_refl)). cbn [bind].
  rewrite tl_completions_nil. reflexivity.
Qed.

(* xcdat_lookup: one row per input line: the id, or -1 *)
Theorem tool_lookup_spec stdin : Forall (fun b => b < 256) stdin ->
  tool_lookup (save v P) stdin =
  Ok (concat (map (fun q => match lk P q with Some id => fmt_row id q | None => miss_row q end)
                  (split_lines stdin))).
Proof.
  intros Hb. unfold tool_lookup. rewrite (with_dic_save v P _ Hfits).
  apply each_ok. intros q Hq.
  assert (Hok : bytes_ok q = true).
  { assert (H := split_lines_bytes stdin Hb). rewrite Forall_forall in H. apply H. exact Hq. }
  destruct (Hlook v L P K Hwf) as (Hl & _ & _). rewrite (Hl q Hok). reflexivity.
Qed.

(* ... where the id is an id exactly for the lines that are keys *)
Theorem tool_lookup_member q : bytes_ok q = true -> (lk P q <> None <-> spec_member K q = true).
Proof. intros Hq. destruct (Hlook v L P K Hwf) as (_ & _ & H). apply H. exact Hq. Qed.

(* xcdat_decode on any input: one row per id read *)
Theorem tool_decode_spec stdin :
  tool_decode (save v P) stdin =
  Ok (concat (map (fun i => fmt_row i (match key_of_id K (lk P) i with Some k => k | None => [] end))
                  (parse_ids stdin))).
Proof.
  unfold tool_decode. rewrite (with_dic_save v P _ Hfits).
  apply each_ok. intros i _. rewrite (decode_key_of_id Hlook Hdec v L P K Hwf i). reflexivity.
Qed.

Lemma lenN_K_lt : lenN K < 2 ^ 64.
Proof.
  destruct (Hdec v L P K Hwf) as (Hn & _ & _). rewrite <- Hn. unfold t_num_keys.
  destruct Hfits as [H _]. exact H.
Qed.

(* xcdat_decode inverts xcdat_lookup: feeding the id printed for key k prints k back ... *)
Theorem tool_decode_lookup_inverse k i : lk P k = Some i ->
  tool_decode (save v P) (fmt_dec i ++ [10]) = Ok (fmt_row i k).
Proof.
  intros Hk. unfold tool_decode. rewrite (with_dic_save v P _ Hfits).
  destruct (Hlook v L P K Hwf) as (_ & (_ & Hlt & _) & _).
  assert (Hi : i < 2 ^ 64) by (apply (N.lt_trans _ (lenN K)); [exact (Hlt k i Hk)|exact lenN_K_lt]).
  rewrite (parse_fmt_dec i Hi). cbn [each].
  destruct (Hdec v L P K Hwf) as (_ & Hd & _). rewrite (Hd k i Hk). cbn [bind]. rewrite app_nil_r. reflexivity.
Qed.

(* ... and an id that no key carries prints the empty string *)
Theorem tool_decode_out_of_range i : lenN K <= i -> i < 2 ^ 64 ->
  tool_decode (save v P) (fmt_dec i ++ [10]) = Ok (fmt_row i []).
Proof.
  intros Hge Hi. unfold tool_decode. rewrite (with_dic_save v P _ Hfits).
  rewrite (parse_fmt_dec i Hi). cbn [each].
  destruct (Hdec v L P K Hwf) as (_ & _ & Hd). rewrite (Hd i Hge). cbn [bind]. rewrite app_nil_r. reflexivity.
Qed.

(* every key of K has a row in xcdat_lookup's sense, so the two tools are mutually inverse on K *)
Theorem tool_lookup_decode_roundtrip k : In k K ->
  exists i, lk P k = Some i /\ i < lenN K /\
            tool_decode (save v P) (fmt_dec i ++ [10]) = Ok (fmt_row i k).
Proof.
  intros Hk. destruct (Hlook v L P K Hwf) as (_ & (Hin & Hlt & _) & _).
  destruct (proj1 (Hin k) Hk) as [i Hi]. exists i. split; [exact Hi|]. split; [exact (Hlt k i Hi)|].
  apply tool_decode_lookup_inverse. exact Hi.
Qed.

(* xcdat_prefix_search: per query line the number of keys that are prefixes of it, then their rows *)
Theorem tool_prefix_spec stdin : Forall (fun b => b < 256) stdin ->
  tool_prefix (save v P) stdin =
  Ok (concat (map (fun q => let r := spec_prefixes K q in
                            found_line (lenN r) ++
                            concat (map (fun ik => fmt_row (fst ik) (snd ik)) (with_ids P r)))
                  (split_lines stdin))).
Proof.
  intros Hb. unfold tool_prefix. rewrite (with_dic_save v P _ Hfits).
  apply each_ok. intros q Hq.
  assert (Hok : bytes_ok q = true).
  { assert (H := split_lines_bytes stdin Hb). rewrite Forall_forall in H. apply H. exact Hq. }
  rewrite (proj2 (Hpfx v L P K Hwf q Hok)). cbn [bind]. rewrite with_ids_lenN. reflexivity.
Qed.

(* xcdat_predictive_search: per query line the number of keys it is a prefix of, then the first
   maxn rows *)
Theorem tool_predictive_spec stdin maxn : Forall (fun b => b < 256) stdin ->
  tool_predictive (save v P) stdin maxn =
  Ok (concat (map (fun q => let r := spec_completions K q in
                            found_line (lenN r) ++
                            concat (map (fun ik => fmt_row (fst ik) (snd ik))
                                        (firstn (N.to_nat maxn) (with_ids P r))))
                  (split_lines stdin))).
Proof.
  intros Hb. unfold tool_predictive. rewrite (with_dic_save v P _ Hfits).
  apply each_ok. intros q Hq.
  assert (Hok : bytes_ok q = true).
  { assert (H := split_lines_bytes stdin Hb). rewrite Forall_forall in H. apply H. exact Hq. }
  rewrite (proj2 (Hpred v L P K Hwf q Hok)). cbn [bind]. rewrite with_ids_lenN, take_n_firstn. reflexivity.
Qed.

(* the three integer lines of xcdat_build's report describe the key set *)
Theorem build_report_spec (Hstats : StatsSpec) :
  build_report P = str_nkeys ++ fmt_dec (lenN K) ++ [10] ++
                   str_nnodes ++ fmt_dec (spec_mp_nodes K) ++ [10] ++
                   str_nunits ++ fmt_dec (t_num_units P) ++ [10].
Proof.
  destruct (Hstats v L P K Hwf) as (Hk & _ & _ & _ & Hn & _). unfold build_report. rewrite Hk, Hn. reflexivity.
Qed.

End Fixed.
End Tools.

(* ------------------------------------------------------------------ *)
(* xcdat_build followed by the query tools                             *)
(* ------------------------------------------------------------------ *)
Lemma tool_build_inv v b tbl f dic K : tool_build v b tbl f = Ok (dic, K) ->
  K = sort_dedup (split_lines f) /\ exists P, build v tbl K b = Ok P /\ dic = save v P.
Proof.
  unfold tool_build. destruct (build v tbl (sort_dedup (split_lines f)) b) as [P| |] eqn:E; cbn [bind];
    intros H; try discriminate.
  injection H as <- <-. split; [reflexivity|]. exists P. split; [exact E|reflexivity].
Qed.

Section Pipeline.
Hypothesis Hbuild : BuildSpec.
Hypothesis Hasm : AssembleSpec.

(* on a key file of bytes with at least one line (and a permutation table, and less than 2^40 bytes of
   keys) the build tool succeeds, and what it saves is a well-formed dictionary for exactly the
   sorted distinct lines *)
Theorem tool_build_wf v b tbl f : bytes f -> f <> [] -> perm_okb tbl = true ->
  small_keys (sort_dedup (split_lines f)) ->
  exists L P, tool_build v b tbl f = Ok (save v P, sort_dedup (split_lines f)) /\
              wf_for v L P (sort_dedup (split_lines f)) /\
              lg_bin L = spec_bin_mode b (sort_dedup (split_lines f)).
Proof.
  intros Hb Hne Hperm Hsmall. destruct (tool_build_keys_valid f Hb Hne) as [Hvalid _].
  destruct (Hbuild v tbl _ b Hvalid Hsmall Hperm) as (L & HL & Hlwf & Hbin).
  destruct (Hasm v L _ Hlwf) as [P HP].
  exists L, P. split; [|split; [split; assumption|exact Hbin]].
  rewrite tool_build_eq. unfold build. rewrite HL. cbn [bind]. rewrite HP. reflexivity.
Qed.

(* build, then enumerate: exactly the distinct lines of the key file, ascending, with their ids *)
Theorem tool_build_enumerate (Hpred : PredictiveSpec) v b tbl f dic K :
  bytes f -> f <> [] -> perm_okb tbl = true -> small_keys (sort_dedup (split_lines f)) ->
  tool_build v b tbl f = Ok (dic, K) ->
  exists P, dic = save v P /\ K = sort_dedup (split_lines f) /\
    (trie_fits v P ->
     tool_enumerate dic = Ok (concat (map (fun ik => fmt_row (fst ik) (snd ik)) (with_ids P K)))).
Proof.
  intros Hb Hne Hperm Hsmall H.
  destruct (tool_build_wf v b tbl f Hb Hne Hperm Hsmall) as (L & P & H' & Hwf & _).
  rewrite H' in H. injection H as <- <-. exists P. split; [reflexivity|]. split; [reflexivity|].
  intros Hfits. exact (tool_enumerate_spec Hpred v L P _ Hwf Hfits).
Qed.
End Pipeline.

(* ------------------------------------------------------------------ *)
(* sanity: the tools on the example dictionary of Examples.v           *)
(* keys: ""  "a"  "ab"  "abcd"  "b\0x"  "\xff"                         *)
(* ------------------------------------------------------------------ *)
Example ex_split : split_lines [97; 10; 98; 10] = [[97]; [98]] /\ split_lines [97; 10; 98] = [[97]; [98]] /\
  split_lines [] = [] /\ split_lines [10] = [[]] /\ split_lines [97; 10; 10] = [[97]; []].
Proof. repeat split. Qed.

Example ex_sort_dedup :
  sort_dedup [[98]; [97]; [98]; []; [97; 0]; [200]; [97]] = [[]; [97]; [97; 0]; [98]; [200]].
Proof. vm_compute. reflexivity. Qed.

Example ex_fmt_dec : fmt_dec 0 = [48] /\ fmt_dec 1234567890 = [49; 50; 51; 52; 53; 54; 55; 56; 57; 48] /\
  fmt_dec (2 ^ 64 - 1) = [49;56;52;52;54;55;52;52;48;55;51;55;48;57;53;53;49;54;49;53].
Proof. vm_compute. repeat split. Qed.

(* " 12\n007\t3a4": three ids, then 'a' stops the loop;  "-1 +2 - 3": 2^64-1, 2, then a lone sign stops it *)
Example ex_parse : parse_ids [32; 49; 50; 10; 48; 48; 55; 9; 51; 97; 52] = [12; 7; 3] /\
  parse_ids [45; 49; 32; 43; 50; 32; 45; 32; 51] = [2 ^ 64 - 1; 2].
Proof. vm_compute. split; reflexivity. Qed.
(* 2^64-1 is read, 2^64 sets failbit *)
Example ex_parse_overflow :
  parse_ids (fmt_dec (2 ^ 64 - 1) ++ [32] ++ fmt_dec (2 ^ 64) ++ [32; 53]) = [2 ^ 64 - 1].
Proof. vm_compute. reflexivity. Qed.

Example ex_enumerate : forall v, tool_enumerate (ex_bytes v) =
  Ok ([48; 9; 10] ++ [49; 9; 97; 10] ++ [52; 9; 97; 98; 10] ++ [53; 9; 97; 98; 99; 100; 10] ++
      [50; 9; 98; 0; 120; 10] ++ [51; 9; 255; 10]).
Proof. intros v. destruct v; vm_compute; reflexivity. Qed.

(* "a\nabc\n\n\xff" *)
Example ex_lookup : tool_lookup (ex_bytes V7) [97; 10; 97; 98; 99; 10; 10; 255] =
  Ok ([49; 9; 97; 10] ++ [45; 49; 9; 97; 98; 99; 10] ++ [48; 9; 10] ++ [51; 9; 255; 10]).
Proof. vm_compute. reflexivity. Qed.

(* "0 1 5 6\n": id 6 is out of range *)
Example ex_decode : tool_decode (ex_bytes V15) [48; 32; 49; 32; 53; 32; 54; 10] =
  Ok ([48; 9; 10] ++ [49; 9; 97; 10] ++ [53; 9; 97; 98; 99; 100; 10] ++ [54; 9; 10]).
Proof. vm_compute. reflexivity. Qed.

(* "abcde\n": "4 found" *)
Example ex_prefix : tool_prefix (ex_bytes V16) [97; 98; 99; 100; 101; 10] =
  Ok ([52; 32; 102; 111; 117; 110; 100; 10] ++ [48; 9; 10] ++ [49; 9; 97; 10] ++ [52; 9; 97; 98; 10] ++
      [53; 9; 97; 98; 99; 100; 10]).
Proof. vm_compute. reflexivity. Qed.

(* "a\n\n" with -n 2: "3 found" and "6 found", two rows each *)
Example ex_predictive : tool_predictive (ex_bytes V8) [97; 10; 10] 2 =
  Ok ([51; 32; 102; 111; 117; 110; 100; 10] ++ [49; 9; 97; 10] ++ [52; 9; 97; 98; 10] ++
      [54; 32; 102; 111; 117; 110; 100; 10] ++ [48; 9; 10] ++ [49; 9; 97; 10]).
Proof. vm_compute. reflexivity. Qed.

(* the build tool on the example keys given unsorted and with a duplicate writes the example file *)
Example ex_build : forall v,
  tool_build v false (own_table ex_keys)
    ([255; 10] ++ [97; 98; 10] ++ [10] ++ [97; 10] ++ [98; 0; 120; 10] ++ [97; 98; 99; 100; 10] ++ [97; 98])
  = Ok (ex_bytes v, ex_keys).
Proof. intros v. destruct v; vm_compute; reflexivity. Qed.

Example ex_bad_tag : tool_enumerate [9; 0; 0; 0; 1; 2; 3] = Exc TypeMismatch.
Proof. vm_compute. reflexivity. Qed.

Print Assumptions sort_dedup_valid.
Print Assumptions sort_dedup_set.
Print Assumptions split_lines_unlines.
Print Assumptions parse_ids_unlines.
Print Assumptions parse_fmt_dec.
Print Assumptions sort_dedup_canonical.
Print Assumptions tool_build_eq.
Print Assumptions build_report_spec.
Print Assumptions tool_build_keys_valid.
Print Assumptions tool_enumerate_spec.
Print Assumptions tool_lookup_spec.
Print Assumptions tool_decode_spec.
Print Assumptions tool_decode_lookup_inverse.
Print Assumptions tool_decode_out_of_range.
Print Assumptions tool_lookup_decode_roundtrip.
Print Assumptions tool_prefix_spec.
Print Assumptions tool_predictive_spec.
Print Assumptions tool_build_wf.
Print Assumptions tool_build_enumerate.
