(* Trie.v: model of code_table.hpp (queries) and trie.hpp (lookup, decode, the resumable iterators, statistics) *)
From X Require Import Base Arr Consts BitToolsSpec BitToolsGen BitVector CompactVector Dac Tail.
Local Open Scope N_scope.

Record ctable := mkCt { ct_maxlen : N; ct_table : arr N (* 512: code[256] ++ char[256] *); ct_alpha : arr N }.
Definition ct_get_code (c : ctable) (ch : N) : res N := aget (ct_table c) ch.
Definition ct_get_char (c : ctable) (cd : N) : res N := aget (ct_table c) (cd + 256).

Record trie := mkTrie { t_nkeys : N; t_table : ctable; t_terms : bitvec; t_bc : bcvec; t_tail : tailvec }.

Definition t_bin_mode (P : trie) : bool := tv_bin_mode (t_tail P).
Definition t_num_keys (P : trie) : N := t_nkeys P.
Definition t_alphabet_size (P : trie) : N := alen (ct_alpha (t_table P)).
Definition t_max_length (P : trie) : N := ct_maxlen (t_table P).
Definition t_num_nodes (P : trie) : N := bc_num_nodes (t_bc P).
Definition t_num_units (P : trie) : N := bc_num_units (t_bc P).
Definition t_num_free_units (P : trie) : N := bc_num_free_units (t_bc P).
Definition t_tail_length (P : trie) : N := tv_size (t_tail P).

Definition npos_to_id (P : trie) (npos : N) : res N := bv_rank (t_terms P) npos.
Definition id_to_npos (P : trie) (id : N) : res N := bv_select (t_terms P) id.

(* child of npos by the byte b; returns (cpos, check(cpos) == npos) *)
Definition child (P : trie) (npos b : N) : res (N * bool) :=
  do base <- bc_base (t_bc P) npos;
  do cd <- ct_get_code (t_table P) b;
  let cpos := N.lxor base cd in
  do chk <- bc_check (t_bc P) cpos;
  Ok (cpos, chk =? npos).

(* ---------------- lookup ---------------- *)
Fixpoint lookup_loop (P : trie) (q rest : key) (npos : N) : res (option N) :=
  do lf <- bc_is_leaf (t_bc P) npos;
  if lf then
    do tpos <- bc_link (t_bc P) npos;
    do m <- t_match (t_tail P) rest tpos;
    if m then do id <- npos_to_id P npos; Ok (Some id) else Ok None
  else
    match rest with
    | [] => do tm <- bv_get (t_terms P) npos;
            if tm then do id <- npos_to_id P npos; Ok (Some id) else Ok None
    | b :: rest' =>
      do '(cpos, ok) <- child P npos b;
      if ok then lookup_loop P q rest' cpos else Ok None
    end.
Definition lookup (P : trie) (q : key) : res (option N) := lookup_loop P q q 0.

(* ---------------- decode ---------------- *)
Fixpoint climb (fuel : nat) (P : trie) (npos : N) (acc : key) : res key :=
  if npos =? 0 then Ok acc else
  match fuel with
  | O => Fault OutOfFuel
  | S f =>
    do ppos <- bc_check (t_bc P) npos;
    do base <- bc_base (t_bc P) ppos;
    do ch <- ct_get_char (t_table P) (N.land (N.lxor base npos) 255);  (* get_char takes a uint8_t *)
    climb f P ppos (ch :: acc)
  end.

Definition u64max : N := mask64.

Definition decode (P : trie) (id : N) : res key :=
  if t_nkeys P <=? id then Ok [] else
  do npos <- id_to_npos P id;
  do lf <- bc_is_leaf (t_bc P) npos;
  do tpos <- (if lf then bc_link (t_bc P) npos else Ok u64max);
  (* the climb visits one node per byte: bounded by the number of units *)
  do pre <- climb (S (N.to_nat (t_num_units P))) P npos [];
  if negb (tpos =? 0) && negb (tpos =? u64max)
  then do suf <- t_decode (t_tail P) tpos; Ok (pre ++ suf)
  else Ok pre.

(* ---------------- prefix iterator ---------------- *)
Record pfx_it := mkPfx { p_obj : bool; p_key : key; p_id : N; p_kpos : N; p_npos : N; p_beg : bool; p_end : bool }.
Definition mk_prefix (q : key) : pfx_it := mkPfx true q 0 0 0 true false.
Definition default_prefix : pfx_it := mkPfx false [] 0 0 0 true false.
Definition pfx_decoded (it : pfx_it) : key := firstn (N.to_nat (p_kpos it)) (p_key it).

Definition pfx_fail (P : trie) (it : pfx_it) : res (pfx_it * bool) :=
  Ok (mkPfx (p_obj it) (p_key it) (t_nkeys P) (p_kpos it) (p_npos it) false true, false).

(* the while loop of next_prefix; one iteration per byte of the key *)
Fixpoint pfx_loop (fuel : nat) (P : trie) (it : pfx_it) : res (pfx_it * bool) :=
  do lf <- bc_is_leaf (t_bc P) (p_npos it);
  if lf then
    do tpos <- bc_link (t_bc P) (p_npos it);
    do m <- t_prefix_match (t_tail P) (skipn (N.to_nat (p_kpos it)) (p_key it)) tpos;
    match m with
    | None => Ok (mkPfx (p_obj it) (p_key it) (t_nkeys P) (p_kpos it) (p_npos it) false true, false)
    | Some n =>
      do id <- npos_to_id P (p_npos it);
      Ok (mkPfx (p_obj it) (p_key it) id (p_kpos it + n) (p_npos it) false true, true)
    end
  else
    if p_kpos it =? lenN (p_key it) then pfx_fail P it          (* repaired F1: in either mode *)
    else
    match fuel with
    | O => Fault OutOfFuel
    | S f =>
      do b <- kget (p_key it) (p_kpos it);
      do '(cpos, ok) <- child P (p_npos it) b;
      let it1 := mkPfx (p_obj it) (p_key it) (p_id it) (p_kpos it + 1) (p_npos it) false false in
      if negb ok then pfx_fail P it1 else
      let it2 := mkPfx (p_obj it) (p_key it) (p_id it) (p_kpos it + 1) cpos false false in
      do lf2 <- bc_is_leaf (t_bc P) cpos;
      do tm <- bv_get (t_terms P) cpos;
      if negb lf2 && tm then
        do id <- npos_to_id P cpos;
        Ok (mkPfx (p_obj it) (p_key it) id (p_kpos it + 1) cpos false false, true)
      else pfx_loop f P it2
    end.

Definition next_prefix (P : trie) (it : pfx_it) : res (pfx_it * bool) :=
  if negb (p_obj it) then Ok (it, false) else
  if p_end it then Ok (it, false) else
  do first <-
    (if p_beg it then
       do lf <- bc_is_leaf (t_bc P) (p_npos it);
       do tm <- bv_get (t_terms P) (p_npos it);
       if negb lf && tm                                         (* repaired F2: a leaf root is decided below *)
       then do id <- npos_to_id P (p_npos it); Ok (Some id) else Ok None
     else Ok None);
  match first with
  | Some id => Ok (mkPfx true (p_key it) id (p_kpos it) (p_npos it) false false, true)
  | None => pfx_loop (S (length (p_key it))) P
                     (mkPfx true (p_key it) (p_id it) (p_kpos it) (p_npos it) false (p_end it))
  end.

(* ---------------- predictive iterator ---------------- *)
Record cursor := mkCur { c_label : N; c_kpos : N; c_npos : N }.
Record pred_it := mkPred { d_obj : bool; d_key : key; d_id : N; d_dec : key (* m_decoded *);
                           d_stack : list cursor (* top first *); d_beg : bool; d_end : bool }.
Definition mk_predictive (q : key) : pred_it := mkPred true q 0 [] [] true false.
Definition default_predictive : pred_it := mkPred false [] 0 [] [] true false.

Definition last_or0 (l : key) : N := last l 0.

(* p is a prefix of s *)
Fixpoint prefixb (p s : key) : bool :=
  match p, s with
  | [], _ => true
  | x :: p', y :: s' => (x =? y) && prefixb p' s'
  | _ :: _, [] => false
  end.

(* is_beg phase: descend along the key.  Returns (it, Some r) if next() returns r inside this phase,
   or (it, None) with the start cursor pushed *)
Fixpoint pred_descend (P : trie) (it : pred_it) (rest : key) (kpos npos : N) (dec : key (* reversed *))
  : res (pred_it * option bool) :=
  match rest with
  | [] =>
    let lbl := match dec with [] => 0 | c :: _ => c end in
    Ok (mkPred true (d_key it) (d_id it) (rev dec) [mkCur lbl kpos npos] false false, None)
  | b :: rest' =>
    do lf <- bc_is_leaf (t_bc P) npos;
    if lf then
      do tpos <- bc_link (t_bc P) npos;
      if tpos =? 0 then Ok (mkPred true (d_key it) (d_id it) (rev dec) [] false true, Some false) else
      (* repaired F4: the rest of the query must be a prefix of the stored suffix *)
      do suf <- t_decode (t_tail P) tpos;
      let d := rev dec ++ suf in
      if prefixb rest suf then
        do id <- npos_to_id P npos;
        Ok (mkPred true (d_key it) id d [] false true, Some true)
      else Ok (mkPred true (d_key it) (d_id it) d [] false true, Some false)
    else
      do '(cpos, ok) <- child P npos b;
      if negb ok then Ok (mkPred true (d_key it) (d_id it) (rev dec) [] false true, Some false)
      else pred_descend P it rest' (kpos + 1) cpos (b :: dec)
  end.

(* children of npos over the stored alphabet, pushed in descending byte order (so they pop ascending) *)
Fixpoint push_children (P : trie) (alpha_desc : list N) (base npos kpos : N) (stack : list cursor)
  : res (list cursor) :=
  match alpha_desc with
  | [] => Ok stack
  | c :: t =>
    do cd <- ct_get_code (t_table P) c;
    let cpos := N.lxor base cd in
    do chk <- bc_check (t_bc P) cpos;
    push_children P t base npos kpos (if chk =? npos then mkCur c (kpos + 1) cpos :: stack else stack)
  end.

(* m_decoded.resize(kpos); m_decoded.back() = label   (kpos > 0) *)
Definition set_label (dec : key) (kpos label : N) : key :=
  let n := N.to_nat kpos in
  let d := firstn n dec ++ repeat 0 (n - length dec) in      (* std::string::resize pads with NUL *)
  removelast d ++ [label].

(* the DFS loop; every iteration pops one cursor, so fuel = an upper bound on pops (number of units + 1) *)
Fixpoint pred_dfs (fuel : nat) (P : trie) (it : pred_it) : res (pred_it * bool) :=
  match d_stack it with
  | [] => Ok (mkPred true (d_key it) (d_id it) (d_dec it) [] false true, false)
  | cur :: stack =>
    match fuel with
    | O => Fault OutOfFuel
    | S f =>
      let kpos := c_kpos cur in let npos := c_npos cur in
      let dec := if 0 <? kpos then set_label (d_dec it) kpos (c_label cur) else d_dec it in
      do lf <- bc_is_leaf (t_bc P) npos;
      if lf then
        do id <- npos_to_id P npos;
        do tpos <- bc_link (t_bc P) npos;
        do suf <- t_decode (t_tail P) tpos;
        Ok (mkPred true (d_key it) id (dec ++ suf) stack false false, true)
      else
        do base <- bc_base (t_bc P) npos;
        do stack' <- push_children P (rev (alist (ct_alpha (t_table P)))) base npos kpos stack;
        do tm <- bv_get (t_terms P) npos;
        if tm then
          do id <- npos_to_id P npos;
          Ok (mkPred true (d_key it) id dec stack' false false, true)
        else pred_dfs f P (mkPred true (d_key it) (d_id it) dec stack' false false)
    end
  end.

Definition next_predictive (P : trie) (it : pred_it) : res (pred_it * bool) :=
  if negb (d_obj it) then Ok (it, false) else
  if d_end it then Ok (it, false) else
  do '(it1, r) <- (if d_beg it then pred_descend P it (d_key it) 0 0 (rev (d_dec it))
                   else Ok (it, None));
  match r with
  | Some b => Ok (it1, b)
  | None => pred_dfs (S (N.to_nat (t_num_units P))) P it1
  end.

(* ---------------- running an iterator to exhaustion (the callback entry points) ---------------- *)
Fixpoint run_prefix (fuel : nat) (P : trie) (it : pfx_it) : res (list (N * key)) :=
  match fuel with
  | O => Fault OutOfFuel
  | S f => do '(it', b) <- next_prefix P it;
           if b then do r <- run_prefix f P it'; Ok ((p_id it', pfx_decoded it') :: r) else Ok []
  end.
Definition prefix_search (P : trie) (q : key) : res (list (N * key)) :=
  run_prefix (S (S (length q))) P (mk_prefix q).

Fixpoint run_predictive (fuel : nat) (P : trie) (it : pred_it) : res (list (N * key)) :=
  match fuel with
  | O => Fault OutOfFuel
  | S f => do '(it', b) <- next_predictive P it;
           if b then do r <- run_predictive f P it'; Ok ((d_id it', d_dec it') :: r) else Ok []
  end.
Definition predictive_search (P : trie) (q : key) : res (list (N * key)) :=
  run_predictive (S (S (N.to_nat (t_nkeys P)))) P (mk_predictive q).
Definition enumerate (P : trie) : res (list (N * key)) := predictive_search P [].
