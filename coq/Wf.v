(* Wf.v: the logical content of a dictionary, its assembly into the physical structure, and the
   executable well-formedness check (certificate) that the query theorems take as hypothesis. *)
From Coq Require Import FMapPositive.
From X Require Import Base Arr Consts BitToolsSpec BitToolsGen BitVector CompactVector Dac Tail Trie Spec Iface.
Local Open Scope N_scope.

(* what a dictionary holds, independent of packing: one (base, check) pair, a leaf flag and a terminal
   flag per unit; the suffix registered for each leaf that has a non-empty one; the code table *)
Record logical := mkL {
  lg_nkeys : N; lg_tbl : list N (* 512: code[256] ++ char[256] *); lg_alpha : list N; lg_maxlen : N;
  lg_bin : bool; lg_terms : list bool; lg_leaves : list bool; lg_units : list unit;
  lg_sufs : list suffix (* (suffix, npos) *) }.

(* ---------------- assembly: the tail of trie_builder's constructor + trie(trie_builder&&) ---------------- *)
Definition asg_map (asg : list (N * N)) : PM.t N :=
  fold_left (fun m a => PM.add (N.succ_pos (fst a)) (snd a) m) asg (PM.empty N).
Fixpoint assign_units (m : PM.t N) (units : list unit) (i : N) : list unit :=
  match units with
  | [] => []
  | u :: t => (match PM.find (N.succ_pos i) m with Some tp => (tp, snd u) | None => u end)
              :: assign_units m t (i + 1)
  end.

Definition assemble (v : variant) (L : logical) : res trie :=
  do '(tv, asg) <- tail_complete (lg_bin L) (lg_sufs L);
  let n := lenN (lg_units L) in
  if negb (forallb (fun a => fst a <? n) asg) then Fault OobArr else   (* setter: m_units[npos] *)
  let units := assign_units (asg_map asg) (lg_units L) 0 in
  do terms <- bv_of_bits (lg_terms L) true true;
  do bc <- bc_build v units (lg_leaves L);
  Ok (mkTrie (lg_nkeys L) (mkCt (lg_maxlen L) (of_list (lg_tbl L)) (of_list (lg_alpha L))) terms bc tv).

(* ---------------- the abstract tree read off the logical content ---------------- *)
Inductive tree := TLeaf (u : N) (suf : key) | TNode (u : N) (term : bool) (cs : list (N * tree)).

Fixpoint keys_of (t : tree) : list key :=
  match t with
  | TLeaf _ s => [s]
  | TNode _ tm cs =>
    (if tm then [[]] else []) ++
    (fix go (cs : list (N * tree)) : list key :=
       match cs with [] => [] | (b, c) :: r => map (cons b) (keys_of c) ++ go r end) cs
  end.
Fixpoint nodes_of (t : tree) : list N :=
  match t with
  | TLeaf u _ => [u]
  | TNode u _ cs =>
    u :: (fix go (cs : list (N * tree)) : list N :=
            match cs with [] => [] | (_, c) :: r => nodes_of c ++ go r end) cs
  end.
Definition root_of (t : tree) : N := match t with TLeaf u _ | TNode u _ _ => u end.
(* number of keys in a subtree; minimality: every inner node has at least two keys at or below it,
   and every child subtree at least one *)
Fixpoint nkeys_of (t : tree) : N :=
  match t with
  | TLeaf _ _ => 1
  | TNode _ tm cs =>
    (if tm then 1 else 0) +
    (fix go (cs : list (N * tree)) : N := match cs with [] => 0 | (_, c) :: r => nkeys_of c + go r end) cs
  end.
Fixpoint minimal (t : tree) : bool :=
  match t with
  | TLeaf _ _ => true
  | TNode _ _ cs =>
    (2 <=? nkeys_of t) &&
    (fix go (cs : list (N * tree)) : bool :=
       match cs with [] => true | (_, c) :: r => (1 <=? nkeys_of c) && minimal c && go r end) cs
  end.

Record lview := mkView { v_n : N; v_units : arr unit; v_leaves : arr bool; v_terms : arr bool;
                         v_code : arr N; v_sufs : PM.t key }.
Definition suf_map (sufs : list suffix) : PM.t key :=
  fold_left (fun m sn => PM.add (N.succ_pos (snd sn)) (fst sn) m) sufs (PM.empty key).
Definition view_of (L : logical) : lview :=
  mkView (lenN (lg_units L)) (of_list (lg_units L)) (of_list (lg_leaves L)) (of_list (lg_terms L))
         (of_list (firstn 256 (lg_tbl L))) (suf_map (lg_sufs L)).

Definition vget {A} (a : arr A) (i : N) (d : A) : A := match get a i with Some x => x | None => d end.
Definition suffix_at (V : lview) (u : N) : key :=
  match PM.find (N.succ_pos u) (v_sufs V) with Some s => s | None => [] end.

(* children of u: every byte b (ascending) whose slot base^code(b) names u as its parent.
   Fails (None) if a slot lies outside the unit array. *)
Section Extract.
Variable V : lview.
Variable rec : N -> option tree.
Fixpoint scan_children (bytes : list N) (base u : N) : option (list (N * tree)) :=
  match bytes with
  | [] => Some []
  | b :: r =>
    let c := N.lxor base (vget (v_code V) b 0) in
    if negb (c <? v_n V) then None else
    match scan_children r base u with
    | None => None
    | Some rest =>
      if snd (vget (v_units V) c (0, 0)) =? u then
        match rec c with Some t => Some ((b, t) :: rest) | None => None end
      else Some rest
    end
  end.
End Extract.

Definition bytes256 : list N := map N.of_nat (seq 0 256).

Fixpoint extract (fuel : nat) (V : lview) (u : N) : option tree :=
  match fuel with
  | O => None
  | S f =>
    if negb (u <? v_n V) then None else
    if vget (v_leaves V) u false then Some (TLeaf u (suffix_at V u))
    else
      match scan_children V (extract f V) bytes256 (fst (vget (v_units V) u (0, 0))) u with
      | Some cs => Some (TNode u (vget (v_terms V) u false) cs)
      | None => None
      end
  end.

(* ---------------- the check ---------------- *)
Fixpoint list_eqb {A} (eq : A -> A -> bool) (a b : list A) : bool :=
  match a, b with
  | [], [] => true
  | x :: a', y :: b' => eq x y && list_eqb eq a' b'
  | _, _ => false
  end.
Fixpoint nodupb (l : list N) : bool :=
  match l with [] => true | x :: t => negb (existsb (N.eqb x) t) && nodupb t end.
(* faster duplicate test used at run time: insert into a map *)
Definition nodup_fast (l : list N) : bool :=
  fst (fold_left (fun st x => let '(ok, m) := st in
                               match PM.find (N.succ_pos x) m with
                               | Some _ => (false, m)
                               | None => (ok, PM.add (N.succ_pos x) tt m) end) l (true, PM.empty Datatypes.unit)).

Definition perm_okb (tbl : list N) : bool :=
  (lenN tbl =? 512) &&
  forallb (fun b => match nthN tbl b with
                    | Some cd => (cd <? 256) && match nthN tbl (cd + 256) with Some b' => b' =? b | None => false end
                    | None => false end) bytes256 &&
  forallb (fun cd => match nthN tbl (cd + 256) with
                     | Some b => (b <? 256) && match nthN tbl b with Some cd' => cd' =? cd | None => false end
                     | None => false end) bytes256.

Definition suf_okb (bin : bool) (s : key) : bool :=
  negb (lenN s =? 0) && forallb (fun b => b <? 256) s && (bin || negb (existsb (N.eqb 0) s)).

(* terminal flags on the tree: every key-ending node is flagged *)
Fixpoint terms_okb (V : lview) (t : tree) : bool :=
  match t with
  | TLeaf u _ => vget (v_terms V) u false
  | TNode u tm cs =>
    (fix go (cs : list (N * tree)) : bool :=
       match cs with [] => true | (_, c) :: r => terms_okb V c && go r end) cs
  end.

Definition in_set (m : PM.t Datatypes.unit) (u : N) : bool :=
  match PM.find (N.succ_pos u) m with Some _ => true | None => false end.
Definition set_of (l : list N) : PM.t Datatypes.unit := fold_left (fun m x => PM.add (N.succ_pos x) tt m) l (PM.empty Datatypes.unit).

Fixpoint forallb_idx {A} (f : N -> A -> bool) (l : list A) (i : N) : bool :=
  match l with [] => true | x :: t => f i x && forallb_idx f t (i + 1) end.

Definition lwf_b (L : logical) (K : list key) : bool :=
  let n := lenN (lg_units L) in
  let V := view_of L in
  (n <? 2^56) && (lenN (lg_leaves L) =? n) && (lenN (lg_terms L) =? n) &&
  forallb (fun u => (fst u <? 2^64) && (snd u <? 2^64)) (lg_units L) &&
  perm_okb (lg_tbl L) &&
  valid_keys K &&
  list_eqb N.eqb (lg_alpha L) (spec_alphabet K) &&
  (lg_maxlen L =? spec_max_length K) && (lg_nkeys L =? lenN K) &&
  (* suffixes: well-formed strings, on distinct leaf units; leaves without a suffix have base 0 *)
  forallb (fun sn => suf_okb (lg_bin L) (fst sn) && (snd sn <? n) && vget (v_leaves V) (snd sn) false) (lg_sufs L) &&
  nodup_fast (map snd (lg_sufs L)) &&
  (fold_right (fun sn acc => lenN (fst sn) + 1 + acc) 1 (lg_sufs L) <? 2^60) &&
  (let SS := set_of (map snd (lg_sufs L)) in
   forallb_idx (fun i u => negb (vget (v_leaves V) i false) || in_set SS i || (fst u =? 0)) (lg_units L) 0) &&
  match extract (S (N.to_nat (lg_maxlen L))) V 0 with
  | None => false
  | Some T =>
    list_eqb key_eqb (keys_of T) K &&
    nodup_fast (nodes_of T) &&
    terms_okb V T &&
    (count_true (lg_terms L) =? lenN K) &&
    minimal T &&
    (* used units are exactly the tree's nodes: every other unit is free (check = itself), no node is *)
    (let S := set_of (nodes_of T) in
     forallb_idx (fun i u => if in_set S i then negb (snd u =? i) else (snd u =? i)) (lg_units L) 0)
  end.

(* ---------------- reading the logical content back out of a physical structure
   (run on the implementation's own file; not trusted: its result is checked by assemble + lwf_b) ---------------- *)
Fixpoint iota (n : nat) (i : N) : list N := match n with O => [] | S m => i :: iota m (i + 1) end.
Definition ok_or {A} (d : A) (r : res A) : A := match r with Ok a => a | _ => d end.

Definition disassemble (P : trie) : logical :=
  let n := t_num_units P in
  let idx := iota (N.to_nat n) 0 in
  let leaves := map (fun u => ok_or false (bc_is_leaf (t_bc P) u)) idx in
  let terms := map (fun u => ok_or false (bv_get (t_terms P) u)) idx in
  let units := map (fun u => ((if ok_or false (bc_is_leaf (t_bc P) u) then 0 else ok_or 0 (bc_base (t_bc P) u)),
                              ok_or 0 (bc_check (t_bc P) u))) idx in
  let fuel := S (N.to_nat (tv_size (t_tail P))) in      (* computed once, shared by every decode below *)
  let dec := if tv_bin_mode (t_tail P) then dec_bin fuel (t_tail P) else dec_nul fuel (t_tail P) in
  let sufs := flat_map (fun u => if ok_or false (bc_is_leaf (t_bc P) u) then
                                   let tp := ok_or 0 (bc_link (t_bc P) u) in
                                   if tp =? 0 then [] else [(ok_or [] (dec tp), u)]
                                 else []) idx in
  mkL (t_nkeys P) (alist (ct_table (t_table P))) (alist (ct_alpha (t_table P))) (ct_maxlen (t_table P))
      (t_bin_mode P) terms leaves units sufs.

(* the certificate for one file: the logical content read from it reassembles to the same bytes and is
   well formed for K.  [enc] is Serial.save, passed in to keep this file independent of Serial.v *)
Definition cert_check (v : variant) (enc : variant -> trie -> list N) (P0 : trie) (bytes : list N) (K : list key) : bool :=
  let L := disassemble P0 in
  match assemble v L with
  | Ok P' => list_eqb N.eqb (enc v P') bytes && lwf_b L K
  | _ => false
  end.
