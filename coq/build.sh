#!/bin/sh
# full .vo build of the Coq development + extraction + xmodel; run from anywhere
set -e
cd "$(dirname "$0")"
python3 ../translator/consts.py "${VERIF_REPO:-/repo}/include" Consts.v
python3 ../translator/bittools.py "${VERIF_REPO:-/repo}/include" BitToolsGen.v
ls *.v | grep -v '^Extract.v$' | sed 's/^/.\//' > /dev/null
{ echo "-Q . X"; ls *.v | grep -v '^Extract.v$'; } > _CoqProject
coq_makefile -f _CoqProject -o Makefile > /dev/null
make -j16 ${MAKE_K:+-k} 2>&1 | grep -v '^COQDEP\|^CLEAN' || true
cd ../ocaml
if [ ! -f xmodel ] || [ -n "$(find ../coq -name '*.vo' -newer xmodel 2>/dev/null | head -1)" ] || [ xmodel.ml -nt xmodel ]; then
  coqc -Q ../coq X ../coq/Extract.v 2>&1 | grep -v '^Warning\|^opaque\|^: OrderedTypeEx\|OrderedTypeEx\|extraction-opaque' || true
  ocamlfind ocamlopt -O3 -w -a xmodel_core.mli xmodel_core.ml xmodel.ml -o xmodel
fi
