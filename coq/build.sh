#!/bin/sh
# full .vo build of the Coq development + extraction + xmodel; run from anywhere.
# Files named in coq/WIP (one glob per line) are work in progress and are not built.
set -e
cd "$(dirname "$0")"
python3 ../translator/consts.py "${VERIF_REPO:-/repo}/include" Consts.v
python3 ../translator/bittools.py "${VERIF_REPO:-/repo}/include" BitToolsGen.v
python3 ../translator/layout.py "${VERIF_REPO:-/repo}/include" LayoutGen.v
# the accessor translator leaves out a class it cannot handle (the proofs about that class then fail to compile, the
# others stay); any other failure removes its output so that nothing stale is used
python3 ../translator/access.py "${VERIF_REPO:-/repo}/include" AccessGen.v AccessTrieGen.v || {
  echo "translator/access.py failed: AccessGen.v / AccessTrieGen.v are not built"
  rm -f AccessGen.v AccessGen.vo AccessTrieGen.v AccessTrieGen.vo; }
{ echo "-Q . X"
  for f in *.v; do
    [ "$f" = Extract.v ] && continue
    skip=0
    if [ -f WIP ]; then for g in $(cat WIP); do case "$f" in $g) skip=1;; esac; done; fi
    [ $skip = 1 ] || echo "$f"
  done; } > _CoqProject
coq_makefile -f _CoqProject -o Makefile > /dev/null
make -j16 -k COQC="timeout 1500 coqc" 2>&1 | grep -v '^COQDEP\|^CLEAN' || true
cd ../ocaml
if [ ! -f xmodel ] || [ -n "$(find ../coq -name '*.vo' -newer xmodel 2>/dev/null | head -1)" ] || [ xmodel.ml -nt xmodel ]; then
  coqc -Q ../coq X ../coq/Extract.v 2>&1 | grep -v '^Warning\|^opaque\|OrderedTypeEx\|extraction-opaque\|^File.*Extract.v\|^ \[extraction' || true
  ocamlfind ocamlopt -O3 -w -a xmodel_core.mli xmodel_core.ml xmodel.ml -o xmodel
fi
