#!/bin/sh
# Usage: build_driver.sh [release|asan|tsan|clang] [include-dir] [output]
# Builds /verif/harness/driver.cpp against the xcdat headers in <include-dir> (default /repo/include).
set -eu
here=$(cd "$(dirname "$0")" && pwd)
cfg=${1:-release}
inc=${2:-/repo/include}
out=${3:-$here/driver_$cfg}
case "$cfg" in
  release) exec g++ -std=c++17 -O2 -DNDEBUG -pthread -I"$inc" "$here/driver.cpp" -o "$out" ;;
  asan)    exec g++ -std=c++17 -O1 -g -fsanitize=address,undefined -fno-sanitize-recover=all -D_GLIBCXX_ASSERTIONS -pthread -I"$inc" "$here/driver.cpp" -o "$out" ;;
  tsan)    exec g++ -std=c++17 -O1 -g -fsanitize=thread -pthread -I"$inc" "$here/driver.cpp" -o "$out" ;;
  clang)   exec clang++ -std=c++17 -O2 -DNDEBUG -pthread -I"$inc" "$here/driver.cpp" -o "$out" ;;
  *) echo "unknown config $cfg" >&2; exit 2 ;;
esac
