"""Build / run / compare machinery shared by every check (DESIGN.md sections 4 and 5)."""
import hashlib, json, os, re, resource, subprocess, sys, time, glob, shutil

VERIF = os.path.dirname(os.path.dirname(os.path.abspath(__file__)))
REPO = os.environ.get('VERIF_REPO', '/repo')
WORK = os.path.join(VERIF, 'work')
COQ = os.path.join(VERIF, 'coq')
GUARD = '-DKAMPERSANDA_XCDAT_VERIF'
NPROC = os.cpu_count() or 4

CONFIGS = {
    'rel':    ['g++', '-std=c++17', '-O2', '-DNDEBUG', '-pthread'],
    'san':    ['g++', '-std=c++17', '-O1', '-g', '-fsanitize=address,undefined', '-fno-sanitize=alignment',
               '-fno-sanitize-recover=all', '-D_GLIBCXX_ASSERTIONS', '-pthread'],
    'align':  ['g++', '-std=c++17', '-O1', '-g', '-fsanitize=undefined', '-fsanitize=alignment',
               '-fno-sanitize-recover=all', '-pthread'],
    'tsan':   ['g++', '-std=c++17', '-O1', '-g', '-fsanitize=thread', '-DNDEBUG', '-pthread'],
    'O0a':    ['g++', '-std=c++17', '-O0', '-pthread'],
    'O3':     ['g++', '-std=c++17', '-O3', '-DNDEBUG', '-mno-sse4.2', '-mno-bmi2', '-mno-popcnt', '-pthread'],
    'native': ['g++', '-std=c++17', '-O3', '-DNDEBUG', '-march=native', '-pthread'],
    'sse42':  ['g++', '-std=c++17', '-O2', '-DNDEBUG', '-msse4.2', '-mpopcnt', '-mno-bmi2', '-pthread'],   # hardware popcount, no BMI2
    'cxx20':  ['g++', '-std=c++20', '-O2', '-DNDEBUG', '-pthread'],      # the headers compiled as C++20 (#if __cplusplus branches)
    'clang':  ['clang++', '-std=c++17', '-O2', '-DNDEBUG', '-pthread'],
}

def log(*a):
    print(*a, file=sys.stderr, flush=True)

def sha(*parts):
    h = hashlib.sha256()
    for p in parts:
        h.update(p if isinstance(p, bytes) else p.encode())
    return h.hexdigest()

def tree_hash(paths):
    h = hashlib.sha256()
    for root in paths:
        if os.path.isfile(root):
            files = [root]
        else:
            files = sorted(glob.glob(os.path.join(root, '**', '*'), recursive=True))
        for f in files:
            if os.path.isfile(f):
                h.update(f.encode()); h.update(open(f, 'rb').read())
    return h.hexdigest()

def ensure_dirs():
    for d in ('bin', 'run', 'tmp', 'replay'):
        os.makedirs(os.path.join(WORK, d), exist_ok=True)

# ---------------------------------------------------------------- Coq side
def build_model():
    """translator + full make + extraction + xmodel. Returns (ok, log_text). Never raises."""
    ensure_dirs()
    env = dict(os.environ, VERIF_REPO=REPO, MAKE_K='1')
    t0 = time.time()
    import fcntl
    with open(os.path.join(WORK, '.lock-coq'), 'w') as lk:          # one build at a time when checks run in parallel
        fcntl.flock(lk, fcntl.LOCK_EX)
        p = subprocess.run(['sh', os.path.join(COQ, 'build.sh')], stdout=subprocess.PIPE, stderr=subprocess.STDOUT,
                           env=env, text=True, timeout=3600)
    open(os.path.join(WORK, 'coq_build.log'), 'w').write(p.stdout)
    log('[coq] build.sh exit=%d in %.1fs' % (p.returncode, time.time() - t0))
    return p.returncode == 0 and os.path.exists(os.path.join(VERIF, 'ocaml', 'xmodel')), p.stdout

ALLOWED_AXIOMS = set()   # none: every property theorem must be closed under the global context

def theorems_of(pid):
    path = os.path.join(COQ, 'Properties_%s.v' % pid)
    if not os.path.exists(path):
        return []
    return re.findall(r'^\s*(?:Theorem|Corollary)\s+(\w+)', open(path).read(), flags=re.M)

def proof_status(pid, thorough=False):
    """Returns dict: obligations, discharged, detail[{theorem, status, assumptions}], forbidden[...]"""
    thms = theorems_of(pid)
    vo = os.path.join(COQ, 'Properties_%s.vo' % pid)
    src = os.path.join(COQ, 'Properties_%s.v' % pid)
    detail = []
    compiled = os.path.exists(vo) and os.path.getmtime(vo) >= os.path.getmtime(src)
    if compiled:
        probe = os.path.join(WORK, 'run', 'Probe_%s.v' % pid)
        with open(probe, 'w') as f:
            f.write('From X Require Import Properties_%s.\n' % pid)
            for t in thms:
                f.write('Goal True. idtac "@@ %s". exact I. Qed.\nPrint Assumptions %s.\n' % (t, t))
        p = subprocess.run(['coqc', '-Q', COQ, 'X', probe], stdout=subprocess.PIPE, stderr=subprocess.STDOUT, text=True,
                           cwd=os.path.join(WORK, 'run'), timeout=900)
        if p.returncode != 0:
            compiled = False
            log('[coq] probe failed for %s:\n%s' % (pid, p.stdout[-2000:]))
        else:
            blocks = re.split(r'^@@ (\w+)\s*$', p.stdout, flags=re.M)
            for i in range(1, len(blocks), 2):
                name, txt = blocks[i], blocks[i + 1].strip()
                closed = 'Closed under the global context' in txt
                detail.append({'theorem': name, 'status': 'Qed', 'assumptions': 'closed' if closed else txt[:500],
                               'ok': closed})
    if not compiled:
        detail = [{'theorem': t, 'status': 'NOT COMPILED', 'assumptions': '?', 'ok': False} for t in thms]
    # forbidden constructs anywhere in the development
    forb = []
    for f in sorted(glob.glob(os.path.join(COQ, '*.v'))):
        txt = re.sub(r'\(\*.*?\*\)', '', open(f).read(), flags=re.S)
        for m in re.finditer(r'\b(Admitted|admit|Axiom|Parameter|Conjecture|Unset Guard|bypass_check|type-in-type|Admit Obligations)\b', txt):
            forb.append('%s: %s' % (os.path.basename(f), m.group(1)))
    chk = None
    if thorough and compiled:
        # independent re-check of the compiled file and everything it depends on; prints the axioms relied upon
        t0 = time.time()
        p = subprocess.run(['coqchk', '-o', '-silent', '-Q', COQ, 'X', 'X.Properties_%s' % pid], stdout=subprocess.PIPE,
                           stderr=subprocess.STDOUT, text=True, cwd=COQ, timeout=7200)
        m = re.search(r'\* Axioms:(.*?)\n\s*\n\* Constants', p.stdout, flags=re.S)
        ax = ' '.join(m.group(1).split()) if m else '?'
        chk = {'exit': p.returncode, 'axioms': ax, 'seconds': round(time.time() - t0, 1),
               'summary': ' '.join(p.stdout[-700:].split())[-500:]}
        log('[coq] coqchk Properties_%s: exit=%d axioms=%s (%.0fs)' % (pid, p.returncode, ax, time.time() - t0))
        if p.returncode != 0 or ax != '<none>':
            for d in detail:
                d['ok'] = False; d['assumptions'] = 'coqchk: exit %d, axioms %s' % (p.returncode, ax)
    return {'obligations': len(thms), 'discharged': sum(1 for d in detail if d['ok']) if not forb else 0,
            'detail': detail, 'forbidden': forb, 'compiled': compiled, 'coqchk': chk}

# ---------------------------------------------------------------- implementation side
def build_driver(config):
    """compile harness/driver.cpp against /repo's current headers in the given configuration (cached by content
    hash; safe when several checks run at once: one lock file per configuration)"""
    import fcntl
    ensure_dirs()
    flags = CONFIGS[config]
    src = os.path.join(VERIF, 'harness', 'driver.cpp')
    key = sha(tree_hash([os.path.join(REPO, 'include')]), open(src, 'rb').read(), ' '.join(flags), GUARD)[:16]
    out = os.path.join(WORK, 'bin', 'driver-%s-%s' % (config, key))
    if os.path.exists(out):
        return out
    with open(os.path.join(WORK, 'bin', '.lock-%s' % config), 'w') as lk:
        fcntl.flock(lk, fcntl.LOCK_EX)
        if os.path.exists(out):
            return out
        # keep at most two older binaries of this configuration (another check may still be running one)
        olds = sorted(glob.glob(os.path.join(WORK, 'bin', 'driver-%s-*' % config)), key=os.path.getmtime)
        for old in olds[:-2]:
            try: os.unlink(old)
            except OSError: pass
        tmp = '%s.tmp.%d' % (out, os.getpid())
        cmd = flags + [GUARD, '-I', os.path.join(REPO, 'include'), src, '-o', tmp]
        t0 = time.time()
        p = subprocess.run(cmd, stdout=subprocess.PIPE, stderr=subprocess.STDOUT, text=True, timeout=1800)
        if p.returncode != 0:
            raise RuntimeError('driver build failed (%s):\n%s' % (config, p.stdout[-4000:]))
        os.rename(tmp, out)
        log('[impl] built driver %s in %.1fs' % (config, time.time() - t0))
    return out

def build_drivers(configs):
    """build several configurations in parallel"""
    import concurrent.futures as cf
    with cf.ThreadPoolExecutor(max_workers=min(len(configs), NPROC)) as ex:
        return dict(zip(configs, ex.map(build_driver, configs)))

def split_cases(text):
    """list of (id, block_text)"""
    out, cur, cid = [], [], None
    for line in text.splitlines():
        if line.startswith('CASE '):
            cur, cid = [line], line.split()[1]
        elif line.strip() == 'END':
            cur.append(line); out.append((cid, '\n'.join(cur) + '\n')); cur, cid = [], None
        elif cid is not None:
            cur.append(line)
    return out

def _unlimit_stack():
    try:
        resource.setrlimit(resource.RLIMIT_STACK, (resource.RLIM_INFINITY, resource.RLIM_INFINITY))
    except Exception:
        pass

def run_sharded(argv_of, blocks, tag, jobs=None, timeout=3600, env=None, weights=None):
    """run a program over case blocks split into shards in parallel; returns concatenated stdout"""
    ensure_dirs()
    jobs = jobs or NPROC
    n = max(1, min(jobs, len(blocks)))
    shards = [[] for _ in range(n)]
    load = [0] * n
    order = sorted(range(len(blocks)), key=lambda i: -len(blocks[i][1]))
    for i in order:
        j = load.index(min(load)); shards[j].append(i); load[j] += len(blocks[i][1]) + 200
    procs = []
    for j, idxs in enumerate(shards):
        idxs.sort()
        path = os.path.join(WORK, 'run', '%s.%d.cases' % (tag, j))
        with open(path, 'w') as f:
            for i in idxs:
                f.write(blocks[i][1])
        outp = open(path + '.out', 'w')
        e = dict(os.environ, VERIF_TMP=os.path.join(WORK, 'tmp'), **(env or {}))
        procs.append((subprocess.Popen(argv_of(path), stdout=outp, stderr=subprocess.PIPE, env=e,
                                       preexec_fn=_unlimit_stack), outp, path))
    res = {}
    for p, outp, path in procs:
        try:
            _, err = p.communicate(timeout=timeout)
        except subprocess.TimeoutExpired:
            p.kill(); err = b'TIMEOUT'
        outp.close()
        if p.returncode != 0:
            log('[run] %s exited %s: %s' % (path, p.returncode, (err or b'')[-500:].decode(errors='replace')))
        res.update(parse_transcript(open(path + '.out').read()))
    return res

def parse_transcript(text):
    out, cur, cid = {}, None, None
    for line in text.splitlines():
        if line.startswith('case '):
            cid, cur = line[5:], []
        elif line.startswith('end ') and cid is not None:
            out[cid] = cur; cid, cur = None, None
        elif cur is not None:
            cur.append(line)
    if cid is not None:           # unterminated (driver died)
        out[cid] = cur + ['crash driver-died']
    return out

def run_driver(config, blocks, tag, env=None, timeout=3600):
    exe = build_driver(config)
    slog = os.path.join(WORK, 'run', '%s-%s.stderr' % (tag, config))
    if os.path.exists(slog):
        os.unlink(slog)
    e = {'VERIF_STDERR_LOG': slog,
         'ASAN_OPTIONS': 'detect_leaks=1:abort_on_error=0:allocator_may_return_null=1',
         'UBSAN_OPTIONS': 'print_stacktrace=0', 'TSAN_OPTIONS': 'halt_on_error=0'}
    e.update(env or {})
    return run_sharded(lambda path: [exe, path], blocks, tag + '-' + config, env=e, timeout=timeout)

def read_stderr_log(tag, config):
    """case id -> the first diagnostic lines the sanitizer / assert printed for that case"""
    out = {}
    import glob as _g
    for path in _g.glob(os.path.join(WORK, 'run', '%s-%s.stderr*' % (tag, config))) + [os.path.join(WORK, 'run', '%s.stderr' % tag)]:
        if not os.path.exists(path):
            continue
        cur = None
        for line in open(path, errors='replace'):
            if line.startswith('== '):
                cur = line[3:].strip(); out.setdefault(cur, '')
            elif cur is not None and len(out[cur]) < 400 and re.search(r'runtime error|ERROR: |Assertion|WARNING: ThreadSanitizer|SUMMARY', line):
                out[cur] += re.sub(r'0x[0-9a-f]+', '0x#', line.strip())[:200] + ' | '
    return out

def transcript_text(blocks, res):
    L = []
    for cid, _ in blocks:
        L.append('case ' + cid); L.extend(res.get(cid, ['crash missing'])); L.append('end ' + cid)
    return '\n'.join(L) + '\n'

def run_model(blocks, impl_res, tag, env=None, timeout=3600):
    """xmodel over the same blocks; the implementation transcript supplies the code-table oracle"""
    exe = os.path.join(VERIF, 'ocaml', 'xmodel')
    tpath = os.path.join(WORK, 'run', '%s.impl.transcript' % tag)
    with open(tpath, 'w') as f:
        if impl_res is not None:
            # only the `file` lines are needed by xmodel
            for cid, _ in blocks:
                f.write('case %s\n' % cid)
                for l in impl_res.get(cid, []):
                    if l.startswith('file '):
                        f.write(l + '\n'); break
                f.write('end %s\n' % cid)
    return run_sharded(lambda path: [exe, path, tpath], blocks, tag + '-model', env=env, timeout=timeout)

# ---------------------------------------------------------------- comparison
def normalize_impl(line):
    # LIMIT: the resulting file size after a failed save depends on stdio buffering; keep outcome + loadability
    if line.startswith('limit exc'):
        return 'limit exc'
    if line.startswith('limitt exc'):
        return 'limitt exc'
    if line == 'xlro skip':           # privileges could not be dropped: nothing observed
        return 'xlro ok'
    return line

def compare_case(impl_lines, model_lines):
    """first disagreement between implementation and model ('@' lines are model-only). None if equal."""
    m = [l for l in model_lines if not l.startswith('@')]
    i = [normalize_impl(l) for l in impl_lines]
    for k in range(max(len(m), len(i))):
        a = i[k] if k < len(i) else '<missing>'
        b = m[k] if k < len(m) else '<missing>'
        if a != b:
            return (k, a, b)
    return None

def ops_of_block(block):
    """(header_fields, keys, ops) of a case block"""
    lines = block.strip().splitlines()
    hdr = lines[0].split()
    keys, ops = [], []
    for l in lines[1:-1]:
        if l.startswith('K ') and not ops:
            keys.append(b'' if l[2:].strip() == '-' else bytes.fromhex(l[2:].strip()))
        else:
            ops.append(l)
    return hdr, keys, ops

def write_replay(pid, name, payload):
    ensure_dirs()
    d = os.path.join(VERIF, 'work', 'replay')
    path = os.path.join(d, '%s-%s.json' % (pid, name))
    json.dump(payload, open(path, 'w'), indent=1)
    return path
