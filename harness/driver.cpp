// Test driver for kampersanda/xcdat implementing /verif/harness/PROTOCOL.md.
// Usage: driver <casefile>        (transcript goes to stdout)
// Env: VERIF_CASE_TIMEOUT (seconds, default 20), VERIF_TMP (default /tmp),
//      VERIF_STDERR_LOG (file to append abnormal children's stderr to),
//      VERIF_JOBS (number of cases to run in parallel, default 1).

#include <algorithm>
#include <array>
#include <atomic>
#include <cerrno>
#include <condition_variable>
#include <cstdint>
#include <cstdio>
#include <cstdlib>
#include <cstring>
#include <exception>
#include <fstream>
#include <limits>
#include <deque>
#include <functional>
#include <iostream>
#include <map>
#include <memory>
#include <mutex>
#include <numeric>
#include <optional>
#include <stdexcept>
#include <string>
#include <string_view>
#include <thread>
#include <tuple>
#include <type_traits>
#include <typeinfo>
#include <vector>

#include <cxxabi.h>
#include <dirent.h>
#include <fcntl.h>
#include <poll.h>
#include <signal.h>
#include <sys/mman.h>
#include <sys/prctl.h>
#include <grp.h>
#include <sys/resource.h>
#include <sys/stat.h>
#include <sys/time.h>
#include <sys/types.h>
#include <sys/wait.h>
#include <time.h>
#include <unistd.h>

#include <xcdat.hpp>

namespace {

// ---------------------------------------------------------------------------
// basic utilities
// ---------------------------------------------------------------------------

long g_page = 4096;
std::string g_tmpdir = "/tmp";

void write_all(int fd, const char* p, size_t n) {
    while (n != 0) {
        ssize_t w = ::write(fd, p, n);
        if (w < 0) {
            if (errno == EINTR) continue;
            return;
        }
        p += w;
        n -= static_cast<size_t>(w);
    }
}

// Output sink: either straight to fd 1 (one write per line => flushed) or into a vector.
struct Out {
    std::vector<std::string>* vec = nullptr;
    void operator()(const std::string& s) const {
        if (vec != nullptr) {
            vec->push_back(s);
        } else {
            std::string t = s;
            t.push_back('\n');
            write_all(1, t.data(), t.size());
        }
    }
};

std::string hex_of(const void* p, size_t n) {
    if (n == 0) return "-";
    static const char* digits = "0123456789abcdef";
    const unsigned char* b = static_cast<const unsigned char*>(p);
    std::string s(n * 2, '0');
    for (size_t i = 0; i < n; ++i) {
        s[2 * i] = digits[b[i] >> 4];
        s[2 * i + 1] = digits[b[i] & 15];
    }
    return s;
}
std::string hex_of(std::string_view sv) {
    return hex_of(sv.data(), sv.size());
}

int hexval(char c) {
    if (c >= '0' && c <= '9') return c - '0';
    if (c >= 'a' && c <= 'f') return c - 'a' + 10;
    if (c >= 'A' && c <= 'F') return c - 'A' + 10;
    return -1;
}

bool parse_hex(const std::string& tok, std::string& out) {
    out.clear();
    if (tok == "-") return true;
    if (tok.empty() || tok.size() % 2 != 0) return false;
    out.reserve(tok.size() / 2);
    for (size_t i = 0; i < tok.size(); i += 2) {
        int a = hexval(tok[i]), b = hexval(tok[i + 1]);
        if (a < 0 || b < 0) return false;
        out.push_back(static_cast<char>((a << 4) | b));
    }
    return true;
}

bool parse_u64(const std::string& tok, std::uint64_t& v) {
    if (tok.empty() || tok.size() > 20) return false;
    std::uint64_t x = 0;
    for (char c : tok) {
        if (c < '0' || c > '9') return false;
        std::uint64_t d = static_cast<std::uint64_t>(c - '0');
        if (x > (UINT64_MAX - d) / 10) return false;
        x = x * 10 + d;
    }
    v = x;
    return true;
}

bool parse_bit(const std::string& tok, bool& b) {
    if (tok == "0") { b = false; return true; }
    if (tok == "1") { b = true; return true; }
    return false;
}

std::vector<std::string> split_ws(const std::string& line) {
    std::vector<std::string> tk;
    size_t i = 0;
    while (i < line.size()) {
        while (i < line.size() && (line[i] == ' ' || line[i] == '\t')) ++i;
        size_t j = i;
        while (j < line.size() && line[j] != ' ' && line[j] != '\t') ++j;
        if (j > i) tk.push_back(line.substr(i, j - i));
        i = j;
    }
    return tk;
}

std::string u64s(std::uint64_t v) {
    return std::to_string(v);
}

template <class F>
std::string comma_list(std::uint64_t n, F&& item) {
    if (n == 0) return "-";
    std::string s;
    for (std::uint64_t i = 0; i < n; ++i) {
        if (i != 0) s.push_back(',');
        s += item(i);
    }
    return s;
}

std::string exc_name(const std::exception& e) {
    const char* mangled = typeid(e).name();
    int st = 0;
    char* d = abi::__cxa_demangle(mangled, nullptr, nullptr, &st);
    std::string s = (st == 0 && d != nullptr) ? d : mangled;
    std::free(d);
    for (char& c : s) {
        if (c == ' ' || c == '\t' || c == '\n') c = '_';
    }
    return s;
}

// Runs f (which prints its own success line); prints "<name> exc" / "<name> other:<type>" on throw.
template <class F>
void guarded(const Out& out, const char* name, F&& f) {
    try {
        f();
    } catch (const xcdat::exception&) {
        out(std::string(name) + " exc");
    } catch (const std::exception& e) {
        out(std::string(name) + " other:" + exc_name(e));
    } catch (...) {
        out(std::string(name) + " other:unknown");
    }
}

// Overwrite memory with 0xDD in a way the optimiser may not drop before a free().
// some unrelated heap traffic, so that freed blocks get reused
inline void scrub_heap() {
    std::vector<std::unique_ptr<std::string>> junk;
    for (size_t i = 0; i < 64; ++i) junk.push_back(std::make_unique<std::string>(16 + i * 8, static_cast<char>(0xDD)));
}

void scrub(void* p, size_t n) {
    if (p == nullptr || n == 0) return;
    std::memset(p, 0xDD, n);
    __asm__ __volatile__("" : : "r"(p) : "memory");
}

// Exact-size heap block without terminator (1-byte malloc for length 0).
struct Block {
    char* p;
    size_t n;
    explicit Block(const std::string& b) : p(static_cast<char*>(std::malloc(b.size() != 0 ? b.size() : 1))), n(b.size()) {
        if (p == nullptr) throw std::bad_alloc();
        if (n != 0) std::memcpy(p, b.data(), n);
    }
    ~Block() {
        std::free(p);
    }
    Block(const Block&) = delete;
    Block& operator=(const Block&) = delete;
    // An empty query is passed alternately as the default view (null data pointer) and as a view of a
    // zero-length block: both are the empty byte string.
    std::string_view sv() const {
        static thread_local unsigned empties = 0;   // per thread: concurrent cases build views too
        if (n == 0 && (empties++ & 1U) == 0) return std::string_view();
        return std::string_view(p, n);
    }
    void scrub_bytes() {
        scrub(p, n != 0 ? n : 1);
    }
};

// ---------------------------------------------------------------------------
// temp files
// ---------------------------------------------------------------------------

std::atomic<std::uint64_t> g_tmp_counter{0};

std::string tmp_prefix_for(pid_t pid) {
    return "xv_" + std::to_string(static_cast<long>(pid)) + "_";
}

std::string tmp_path(const char* tag = "") {
    return g_tmpdir + "/" + tmp_prefix_for(getpid()) + std::to_string(g_tmp_counter.fetch_add(1)) + tag;
}

struct TempFile {
    std::string path;
    bool live = true;
    TempFile() : path(tmp_path()) {}
    explicit TempFile(const std::string& p) : path(p) {}
    ~TempFile() {
        remove();
    }
    TempFile(const TempFile&) = delete;
    TempFile& operator=(const TempFile&) = delete;
    void remove() {
        if (live) {
            ::unlink(path.c_str());
            live = false;
        }
    }
};

bool read_file(const std::string& path, std::vector<std::uint8_t>& out) {
    out.clear();
    int fd = ::open(path.c_str(), O_RDONLY);
    if (fd < 0) return false;
    std::uint8_t buf[65536];
    for (;;) {
        ssize_t r = ::read(fd, buf, sizeof(buf));
        if (r < 0) {
            if (errno == EINTR) continue;
            ::close(fd);
            return false;
        }
        if (r == 0) break;
        out.insert(out.end(), buf, buf + r);
    }
    ::close(fd);
    return true;
}

bool write_file(const std::string& path, const std::uint8_t* p, size_t n) {
    int fd = ::open(path.c_str(), O_WRONLY | O_CREAT | O_TRUNC, 0600);
    if (fd < 0) return false;
    write_all(fd, reinterpret_cast<const char*>(p), n);
    ::close(fd);
    return true;
}

std::optional<std::uint64_t> file_size(const std::string& path) {
    struct stat st;
    if (::stat(path.c_str(), &st) != 0) return std::nullopt;
    return static_cast<std::uint64_t>(st.st_size);
}

// Remove leftovers of a (crashed / killed) child from the temp directory.
void cleanup_tmp_of(pid_t pid) {
    const std::string prefix = tmp_prefix_for(pid);
    DIR* d = ::opendir(g_tmpdir.c_str());
    if (d == nullptr) return;
    std::vector<std::string> victims;
    while (struct dirent* e = ::readdir(d)) {
        if (std::strncmp(e->d_name, prefix.c_str(), prefix.size()) == 0) {
            victims.push_back(g_tmpdir + "/" + e->d_name);
        }
    }
    ::closedir(d);
    for (const auto& v : victims) {
        if (::unlink(v.c_str()) != 0) ::rmdir(v.c_str());
    }
}

// ---------------------------------------------------------------------------
// guard-paged anonymous mappings
// ---------------------------------------------------------------------------

struct Mapping {
    void* base = nullptr;
    size_t len = 0;
    const char* image = nullptr;
    Mapping() = default;
    Mapping(const Mapping&) = delete;
    Mapping& operator=(const Mapping&) = delete;
    ~Mapping() {
        if (base != nullptr) ::munmap(base, len);
    }
};

// at_end == false: image at byte offset `off` of ceil((off+size)/page) data pages + 1 guard page.
// at_end == true : guard page, data pages, guard page; image's last byte is the last byte before the guard.
std::unique_ptr<Mapping> map_image(const std::vector<std::uint8_t>& bytes, size_t off, bool at_end) {
    const size_t ps = static_cast<size_t>(g_page);
    const size_t size = bytes.size();
    auto m = std::make_unique<Mapping>();
    size_t npages = ((at_end ? 0 : off) + size + ps - 1) / ps;
    if (npages == 0) npages = 1;
    const size_t lead = at_end ? 1 : 0;
    m->len = (lead + npages + 1) * ps;
    void* p = ::mmap(nullptr, m->len, PROT_READ | PROT_WRITE, MAP_PRIVATE | MAP_ANONYMOUS, -1, 0);
    if (p == MAP_FAILED) throw std::runtime_error("mmap failed");
    m->base = p;
    char* data = static_cast<char*>(p) + lead * ps;
    char* img = at_end ? data + npages * ps - size : data + off;
    if (size != 0) std::memcpy(img, bytes.data(), size);
    m->image = img;
    if (::mprotect(data, npages * ps, PROT_READ) != 0) throw std::runtime_error("mprotect failed");
    if (::mprotect(data + npages * ps, ps, PROT_NONE) != 0) throw std::runtime_error("mprotect failed");
    if (lead != 0 && ::mprotect(p, ps, PROT_NONE) != 0) throw std::runtime_error("mprotect failed");
    return m;
}

// ---------------------------------------------------------------------------
// component bytes
// ---------------------------------------------------------------------------

struct bytes_visitor {
    std::vector<std::uint8_t> buf;

    void append(const void* p, size_t n) {
        if (n == 0) return;
        const std::uint8_t* b = static_cast<const std::uint8_t*>(p);
        buf.insert(buf.end(), b, b + n);
    }

    template <class T>
    void visit(const xcdat::immutable_vector<T>& vec) {
        const std::uint64_t n = vec.size();
        append(&n, sizeof(n));
        append(vec.data(), static_cast<size_t>(n) * sizeof(T));
    }

    template <class T>
    void visit(const T& obj) {
        if constexpr (std::is_pod_v<T>) {
            append(&obj, sizeof(T));
        } else {
            const_cast<T&>(obj).visit(*this);
        }
    }
};

template <class T>
std::string component_hex(const T& obj) {
    bytes_visitor v;
    v.visit(obj);
    return hex_of(v.buf.data(), v.buf.size());
}

// ---------------------------------------------------------------------------
// case representation
// ---------------------------------------------------------------------------

struct Case {
    std::string id;
    std::string kind;
    std::vector<std::string> args;
    std::vector<std::string> body;  // trimmed, non-empty, non-comment lines
};

// ---------------------------------------------------------------------------
// query ops shared by kinds `trie` and `conc`
// ---------------------------------------------------------------------------

void append_result(std::string& ln, std::uint64_t id, std::string_view s) {
    ln.push_back(' ');
    ln += u64s(id);
    ln.push_back(':');
    ln += hex_of(s);
}

bool bad_arg(const Out& out, const std::string& line) {
    out("error bad-arg " + line);
    return true;
}

// Returns true if the op was recognised (and handled).
template <class Trie>
bool query_op(const Trie& t, const std::vector<std::string>& tk, const std::string& line, const Out& out) {
    const std::string& op = tk[0];
    if (op == "STATS") {
        if (tk.size() != 1) return bad_arg(out, line);
        guarded(out, "stats", [&] {
            std::string ln = "stats";
            ln += " " + u64s(t.num_keys());
            ln += " " + u64s(t.alphabet_size());
            ln += " " + u64s(t.max_length());
            ln += t.bin_mode() ? " 1" : " 0";
            ln += " " + u64s(t.num_nodes());
            ln += " " + u64s(t.num_units());
            ln += " " + u64s(t.num_free_units());
            ln += " " + u64s(t.tail_length());
            ln += " " + u64s(xcdat::memory_in_bytes(t));
            out(ln);
        });
        return true;
    }
    if (op == "L" || op == "P" || op == "PC" || op == "R" || op == "RC") {
        std::string bytes;
        if (tk.size() != 2 || !parse_hex(tk[1], bytes)) return bad_arg(out, line);
        if (op == "L") {
            guarded(out, "l", [&] {
                Block b(bytes);
                auto r = t.lookup(b.sv());
                out(r.has_value() ? "l " + u64s(r.value()) : std::string("l -"));
            });
        } else if (op == "P") {
            guarded(out, "p", [&] {
                Block b(bytes);
                std::string ln = "p";
                auto it = t.make_prefix_iterator(b.sv());
                while (it.next()) append_result(ln, it.id(), it.decoded_view());
                out(ln);
            });
        } else if (op == "PC") {
            guarded(out, "pc", [&] {
                Block b(bytes);
                std::string ln = "pc";
                t.prefix_search(b.sv(), [&](std::uint64_t id, std::string_view s) { append_result(ln, id, s); });
                out(ln);
            });
        } else if (op == "R") {
            guarded(out, "r", [&] {
                Block b(bytes);
                std::string ln = "r";
                auto it = t.make_predictive_iterator(b.sv());
                while (it.next()) append_result(ln, it.id(), it.decoded_view());
                out(ln);
            });
        } else {
            guarded(out, "rc", [&] {
                Block b(bytes);
                std::string ln = "rc";
                t.predictive_search(b.sv(), [&](std::uint64_t id, std::string_view s) { append_result(ln, id, s); });
                out(ln);
            });
        }
        return true;
    }
    if (op == "D") {
        std::uint64_t id = 0;
        if (tk.size() != 2 || !parse_u64(tk[1], id)) return bad_arg(out, line);
        guarded(out, "d", [&] {
            std::string s = t.decode(id);
            out("d " + hex_of(s));
        });
        return true;
    }
    if (op == "E") {
        if (tk.size() != 1) return bad_arg(out, line);
        guarded(out, "e", [&] {
            std::string ln = "e";
            auto it = t.make_enumerative_iterator();
            while (it.next()) append_result(ln, it.id(), it.decoded_view());
            out(ln);
        });
        return true;
    }
    if (op == "EC") {
        if (tk.size() != 1) return bad_arg(out, line);
        guarded(out, "ec", [&] {
            std::string ln = "ec";
            t.enumerate([&](std::uint64_t id, std::string_view s) { append_result(ln, id, s); });
            out(ln);
        });
        return true;
    }
    return false;
}

// ---------------------------------------------------------------------------
// building a trie from the three key container flavours
// ---------------------------------------------------------------------------

struct KeysS {
    std::vector<std::string> c;
    ~KeysS() {
        for (auto& s : c) scrub(s.data(), s.size());
    }
};
struct KeysC {
    std::vector<std::vector<char>> c;
    ~KeysC() {
        for (auto& s : c) scrub(s.data(), s.size());
    }
};
struct KeysV {
    std::vector<std::unique_ptr<Block>> blocks;
    std::vector<std::string_view> c;
    ~KeysV() {
        for (auto& b : blocks) b->scrub_bytes();
    }
};

// One shared buffer in which every string of the list occurs (longest first, a string that already occurs is not
// appended again); the strings are then handed out as windows of that buffer, so views alias and overlap.
struct Corpus {
    std::unique_ptr<Block> blk;
    std::string text;
    explicit Corpus(const std::vector<std::string>& strs) {
        std::vector<const std::string*> order;
        for (const auto& s : strs) order.push_back(&s);
        std::stable_sort(order.begin(), order.end(), [](const std::string* a, const std::string* b) { return a->size() > b->size(); });
        for (const std::string* s : order) {
            if (text.find(*s) == std::string::npos) text += *s;
        }
        blk = std::make_unique<Block>(text);
    }
    std::string_view window(const std::string& s) const {
        const size_t pos = text.find(s);
        return std::string_view(blk->p + (pos == std::string::npos ? 0 : pos), s.size());
    }
};
struct KeysW {
    std::unique_ptr<Corpus> corpus;
    std::vector<std::string_view> c;
    ~KeysW() {
        if (corpus) corpus->blk->scrub_bytes();
    }
};

// Builds; the container and every key buffer is scrubbed and destroyed before returning (or throwing).
template <class Trie>
std::unique_ptr<Trie> build_trie(const std::vector<std::string>& keys, bool bin, char cont) {
    std::unique_ptr<Trie> t;
    if (cont == 's') {
        KeysS k;
        k.c.reserve(keys.size());
        for (const auto& s : keys) k.c.emplace_back(s.data(), s.size());
        t = std::make_unique<Trie>(k.c, bin);
    } else if (cont == 'c') {
        KeysC k;
        k.c.reserve(keys.size());
        for (const auto& s : keys) k.c.emplace_back(s.begin(), s.end());
        t = std::make_unique<Trie>(k.c, bin);
    } else if (cont == 'w') {
        KeysW k;
        k.corpus = std::make_unique<Corpus>(keys);
        k.c.reserve(keys.size());
        for (const auto& s : keys) k.c.push_back(k.corpus->window(s));
        t = std::make_unique<Trie>(k.c, bin);
    } else {
        KeysV k;
        k.blocks.reserve(keys.size());
        k.c.reserve(keys.size());
        for (const auto& s : keys) {
            k.blocks.push_back(std::make_unique<Block>(s));
            k.c.push_back(k.blocks.back()->sv());
        }
        t = std::make_unique<Trie>(k.c, bin);
    }
    return t;
}

// Reads leading `K <hex>` lines of the body; returns the index of the first non-K line.
size_t read_keys(const Case& c, std::vector<std::string>& keys, const Out& out) {
    size_t i = 0;
    for (; i < c.body.size(); ++i) {
        auto tk = split_ws(c.body[i]);
        if (tk.empty() || tk[0] != "K") break;
        std::string bytes;
        if (tk.size() != 2 || !parse_hex(tk[1], bytes)) {
            out("error bad-arg " + c.body[i]);
            continue;
        }
        keys.push_back(std::move(bytes));
    }
    return i;
}

// ---------------------------------------------------------------------------
// save in a forked grandchild under RLIMIT_FSIZE
// ---------------------------------------------------------------------------

// Returns "ret:<n>", "exc" or "other:<..>". If the grandchild ends abnormally this process ends the same way
// (its stderr is shared with ours, so the parent classifies it).
extern "C" void lift_limit_handler(int) {
    struct rlimit rl;
    rl.rlim_cur = RLIM_INFINITY;
    rl.rlim_max = RLIM_INFINITY;
    ::setrlimit(RLIMIT_FSIZE, &rl);   // async-signal-safe: the refusal was transient
}

template <class Trie>
std::string limited_save(const Trie& t, const std::string& path, std::uint64_t limit, bool transient = false) {
    int pfd[2];
    if (::pipe(pfd) != 0) throw std::runtime_error("pipe failed");
    pid_t g = ::fork();
    if (g < 0) {
        ::close(pfd[0]);
        ::close(pfd[1]);
        throw std::runtime_error("fork failed");
    }
    if (g == 0) {
        ::close(pfd[0]);
        struct rlimit rl;
        rl.rlim_cur = static_cast<rlim_t>(limit);
        if (transient) {
            ::signal(SIGXFSZ, lift_limit_handler);   // the first write over the limit fails (EFBIG), later ones succeed
            rl.rlim_max = RLIM_INFINITY;
        } else {
            ::signal(SIGXFSZ, SIG_IGN);
            rl.rlim_max = static_cast<rlim_t>(limit);
        }
        ::setrlimit(RLIMIT_FSIZE, &rl);
        std::string msg;
        try {
            std::uint64_t r = xcdat::save(t, path);
            msg = "ret:" + u64s(r);
        } catch (const xcdat::exception&) {
            msg = "exc";
        } catch (const std::exception& e) {
            msg = "other:" + exc_name(e);
        } catch (...) {
            msg = "other:unknown";
        }
        write_all(pfd[1], msg.data(), msg.size());
        ::_exit(0);
    }
    ::close(pfd[1]);
    std::string msg;
    char buf[256];
    for (;;) {
        ssize_t r = ::read(pfd[0], buf, sizeof(buf));
        if (r < 0 && errno == EINTR) continue;
        if (r <= 0) break;
        msg.append(buf, static_cast<size_t>(r));
    }
    ::close(pfd[0]);
    int st = 0;
    while (::waitpid(g, &st, 0) < 0 && errno == EINTR) {
    }
    if (WIFSIGNALED(st)) {
        ::signal(WTERMSIG(st), SIG_DFL);
        ::raise(WTERMSIG(st));
        ::_exit(1);
    }
    if (!WIFEXITED(st) || WEXITSTATUS(st) != 0) {
        ::_exit(WIFEXITED(st) ? WEXITSTATUS(st) : 1);
    }
    if (msg.empty()) msg = "other:no-report";
    return msg;
}

// ---------------------------------------------------------------------------
// kind `trie`
// ---------------------------------------------------------------------------

template <class Dst, class Src>
void cross_open(const Src& cur, bool use_mmap, const char* name, const Out& out) {
    guarded(out, name, [&] {
        TempFile tf;
        xcdat::save(cur, tf.path);
        if (!use_mmap) {
            Dst d = xcdat::load<Dst>(tf.path);
            (void)d;
        } else {
            std::vector<std::uint8_t> bytes;
            if (!read_file(tf.path, bytes)) throw std::runtime_error("cannot read saved file");
            tf.remove();
            auto m = map_image(bytes, 0, false);
            Dst d = xcdat::mmap<Dst>(m->image);
            (void)d;
        }
        out(std::string(name) + " ok");
    });
}

template <class Trie>
struct TrieSession {
    using prefix_it = typename Trie::prefix_iterator;
    using pred_it = typename Trie::predictive_iterator;

    struct Slot {
        int kind = 0;  // 0 none, 1 prefix, 2 predictive
        prefix_it pit;
        pred_it rit;
        std::shared_ptr<Block> blk;      // shared with the copies of the iterator (IC)
        void reset() {
            kind = 0;
            pit = prefix_it();
            rit = pred_it();
            blk.reset();
        }
    };

    const Out& out;
    // Every object that was ever current stays alive until the case ends, so iterator slots created on an
    // earlier current object never dangle because of the driver itself.
    std::vector<std::unique_ptr<Trie>> objs;
    std::vector<std::unique_ptr<Mapping>> maps;
    Trie* built = nullptr;
    Trie* cur = nullptr;
    std::array<Slot, 8> slots;
    std::array<std::string, 4> bufs;

    explicit TrieSession(const Out& o) : out(o) {}

    ~TrieSession() {
        for (auto& s : slots) s.reset();
        objs.clear();
        maps.clear();
    }

    void adopt_built(std::unique_ptr<Trie> t) {
        built = t.get();
        cur = built;
        objs.push_back(std::move(t));
    }

    bool get_slot(const std::string& tok, size_t& k) {
        std::uint64_t v = 0;
        if (!parse_u64(tok, v) || v >= slots.size()) return false;
        k = static_cast<size_t>(v);
        return true;
    }

    std::vector<std::uint8_t> saved_image(const Trie& t) {
        TempFile tf;
        xcdat::save(t, tf.path);
        std::vector<std::uint8_t> bytes;
        if (!read_file(tf.path, bytes)) throw std::runtime_error("cannot read saved file");
        return bytes;
    }

    // "trunc"-style load of the first n bytes; throws what load throws.
    void load_prefix(const std::vector<std::uint8_t>& bytes, size_t n) {
        TempFile tf;
        if (!write_file(tf.path, bytes.data(), std::min(n, bytes.size()))) throw std::runtime_error("cannot write temp file");
        Trie t = xcdat::load<Trie>(tf.path);
        (void)t;
    }

    void op_use(const std::vector<std::string>& tk, const std::string& line) {
        if (tk.size() == 2 && tk[1] == "built") {
            cur = built;
            out("use ok");
        } else if (tk.size() == 2 && tk[1] == "load") {
            guarded(out, "use", [&] {
                TempFile tf;
                xcdat::save(*built, tf.path);
                auto p = std::make_unique<Trie>(xcdat::load<Trie>(tf.path));
                tf.remove();
                cur = p.get();
                objs.push_back(std::move(p));
                out("use ok");
            });
        } else if ((tk.size() == 3 && tk[1] == "mmap") || (tk.size() == 2 && tk[1] == "mmapend")) {
            const bool at_end = tk[1] == "mmapend";
            std::uint64_t off = 0;
            if (!at_end && (!parse_u64(tk[2], off) || off >= static_cast<std::uint64_t>(g_page))) {
                bad_arg(out, line);
                return;
            }
            guarded(out, "use", [&] {
                std::vector<std::uint8_t> bytes = saved_image(*built);
                auto m = map_image(bytes, static_cast<size_t>(off), at_end);
                scrub(bytes.data(), bytes.size());
                auto p = std::make_unique<Trie>(xcdat::mmap<Trie>(m->image));
                maps.push_back(std::move(m));
                cur = p.get();
                objs.push_back(std::move(p));
                out("use ok");
            });
        } else {
            bad_arg(out, line);
        }
    }

    void op_badpath(const std::vector<std::string>& tk, const std::string& line) {
        if (tk.size() != 3) {
            bad_arg(out, line);
            return;
        }
        const std::string& fn = tk[1];
        const std::string& what = tk[2];
        if ((fn != "load" && fn != "save" && fn != "tid") || (what != "missing" && what != "noparent" && what != "dir" && what != "longname" && what != "symloop" && what != "notdir" && what != "empty")) {
            bad_arg(out, line);
            return;
        }
        std::string path;
        std::string dir_made;
        std::string notdir_file;
        if (what == "missing") {
            path = tmp_path("_missing");
        } else if (what == "noparent") {
            path = tmp_path("_nodir") + "/file";
        } else if (what == "longname") {          // a path component longer than NAME_MAX: stat/open fail with ENAMETOOLONG
            path = tmp_path("_") + std::string(300, 'x');
        } else if (what == "symloop") {           // a symbolic link to itself: ELOOP
            path = tmp_path("_loop");
            if (::symlink(path.c_str(), path.c_str()) != 0) path += "/nowhere";
        } else if (what == "notdir") {            // a regular file used as a directory: ENOTDIR
            std::string f = tmp_path("_file");
            { std::ofstream mk(f, std::ios::binary); mk << "x"; }
            dir_made.clear();
            path = f + "/inside";
            notdir_file = f;
        } else if (what == "empty") {
            path = "";
        } else {
            path = tmp_path("_dir");
            if (::mkdir(path.c_str(), 0700) == 0) dir_made = path;
        }
        guarded(out, "badpath", [&] {
            if (fn == "load") {
                Trie t = xcdat::load<Trie>(path);
                (void)t;
            } else if (fn == "save") {
                xcdat::save(*cur, path);
            } else {
                (void)xcdat::get_type_id(path);
            }
            out("badpath ok");
        });
        if (!dir_made.empty()) {
            ::rmdir(dir_made.c_str());
        } else if (!path.empty()) {
            ::unlink(path.c_str());
        }
        if (!notdir_file.empty()) ::unlink(notdir_file.c_str());
    }

    void op(const std::vector<std::string>& tk, const std::string& line) {
        const std::string& o = tk[0];
        if (query_op(*cur, tk, line, out)) return;

        if (o == "FILE") {
            if (tk.size() != 1) return (void)bad_arg(out, line);
            guarded(out, "save", [&] {
                TempFile tf;
                std::uint64_t ret = xcdat::save(*cur, tf.path);
                std::vector<std::uint8_t> bytes;
                if (!read_file(tf.path, bytes)) throw std::runtime_error("cannot read saved file");
                tf.remove();
                out("save " + u64s(ret) + " " + u64s(bytes.size()));
                out("file " + hex_of(bytes.data(), bytes.size()));
            });
        } else if (o == "USE") {
            op_use(tk, line);
        } else if (o == "IP" || o == "IR") {
            size_t k = 0;
            std::string bytes;
            if (tk.size() != 3 || !get_slot(tk[1], k) || !parse_hex(tk[2], bytes)) return (void)bad_arg(out, line);
            const bool pref = o == "IP";
            guarded(out, pref ? "ip" : "ir", [&] {
                Slot& s = slots[k];
                s.reset();
                s.blk = std::make_shared<Block>(bytes);
                if (pref) {
                    s.pit = cur->make_prefix_iterator(s.blk->sv());
                    s.kind = 1;
                    out("ip ok");
                } else {
                    s.rit = cur->make_predictive_iterator(s.blk->sv());
                    s.kind = 2;
                    out("ir ok");
                }
            });
        } else if (o == "IE" || o == "IDP" || o == "IDR") {
            size_t k = 0;
            if (tk.size() != 2 || !get_slot(tk[1], k)) return (void)bad_arg(out, line);
            const char* name = o == "IE" ? "ie" : (o == "IDP" ? "idp" : "idr");
            guarded(out, name, [&] {
                Slot& s = slots[k];
                s.reset();
                if (o == "IE") {
                    s.rit = cur->make_enumerative_iterator();
                    s.kind = 2;
                } else if (o == "IDP") {
                    s.pit = prefix_it();
                    s.kind = 1;
                } else {
                    s.rit = pred_it();
                    s.kind = 2;
                }
                out(std::string(name) + " ok");
            });
        } else if (o == "IC" || o == "IM") {   // slot <dst> becomes a copy of / is move-constructed from slot <src>
            size_t a = 0, b = 0;
            if (tk.size() != 3 || !get_slot(tk[1], a) || !get_slot(tk[2], b) || a == b) return (void)bad_arg(out, line);
            if (slots[a].kind == 0) return out("error empty-slot " + line);
            guarded(out, o == "IC" ? "ic" : "im", [&] {
                Slot& src = slots[a];
                Slot& dst = slots[b];
                dst.reset();
                dst.blk = src.blk;
                dst.kind = src.kind;
                if (o == "IC") {
                    if (src.kind == 1) { prefix_it cp(src.pit); dst.pit = cp; } else { pred_it cp(src.rit); dst.rit = cp; }
                } else {
                    if (src.kind == 1) { prefix_it mv(std::move(src.pit)); dst.pit = std::move(mv); } else { pred_it mv(std::move(src.rit)); dst.rit = std::move(mv); }
                    src.reset();      // the moved-from iterator is not used again
                }
                out(o == "IC" ? "ic ok" : "im ok");
            });
        } else if (o == "NI") {   // advance WITHOUT reading the keyword (only the id): `ni 1 <id>` / `ni 0`
            size_t k = 0;
            if (tk.size() != 2 || !get_slot(tk[1], k)) return (void)bad_arg(out, line);
            Slot& s = slots[k];
            if (s.kind == 0) return out("error empty-slot " + line);
            guarded(out, "ni", [&] {
                const bool r = (s.kind == 1) ? s.pit.next() : s.rit.next();
                if (r) {
                    out("ni 1 " + u64s(s.kind == 1 ? s.pit.id() : s.rit.id()));
                } else {
                    out("ni 0");
                }
            });
        } else if (o == "N" || o == "G") {
            size_t k = 0;
            if (tk.size() != 2 || !get_slot(tk[1], k)) return (void)bad_arg(out, line);
            Slot& s = slots[k];
            if (s.kind == 0) return out("error empty-slot " + line);
            if (o == "N") {
                guarded(out, "n", [&] {
                    if (s.kind == 1) {
                        if (s.pit.next()) {
                            out("n 1 " + u64s(s.pit.id()) + " " + hex_of(s.pit.decoded_view()));
                        } else {
                            out("n 0");
                        }
                    } else {
                        if (s.rit.next()) {
                            out("n 1 " + u64s(s.rit.id()) + " " + hex_of(s.rit.decoded_view()));
                        } else {
                            out("n 0");
                        }
                    }
                });
            } else {
                guarded(out, "g", [&] {
                    if (s.kind == 1) {
                        std::string d = s.pit.decoded();
                        out("g " + u64s(s.pit.id()) + " " + hex_of(d));
                    } else {
                        std::string d = s.rit.decoded();
                        out("g " + u64s(s.rit.id()) + " " + hex_of(d));
                    }
                });
            }
        } else if (o == "DI") {
            std::uint64_t b = 0, id = 0;
            if (tk.size() != 3 || !parse_u64(tk[1], b) || b >= bufs.size() || !parse_u64(tk[2], id)) {
                return (void)bad_arg(out, line);
            }
            guarded(out, "di", [&] {
                cur->decode(id, bufs[b]);
                out("di " + hex_of(bufs[b]));
            });
        } else if (o == "MV") {
            if (tk.size() != 1) return (void)bad_arg(out, line);
            guarded(out, "mv", [&] {
                for (auto& s : slots) s.reset();
                auto b = std::make_unique<Trie>();
                {
                    Trie a(std::move(*cur));
                    *b = std::move(a);
                }
                // The built trie is a logical handle: if it was the one moved, it now lives in the new object.
                if (cur == built) built = b.get();
                cur = b.get();
                objs.push_back(std::move(b));
                out("mv ok");
            });
        } else if (o == "TRUNC") {
            std::uint64_t n = 0;
            if (tk.size() != 2 || !parse_u64(tk[1], n)) return (void)bad_arg(out, line);
            guarded(out, "trunc", [&] {
                std::vector<std::uint8_t> bytes = saved_image(*cur);
                load_prefix(bytes, static_cast<size_t>(std::min<std::uint64_t>(n, bytes.size())));
                out("trunc ok");
            });
        } else if (o == "TRUNCALL") {
            if (tk.size() != 1) return (void)bad_arg(out, line);
            guarded(out, "truncall", [&] {
                std::vector<std::uint8_t> bytes = saved_image(*cur);
                std::string list;
                for (size_t n = 0; n < bytes.size(); ++n) {
                    bool threw = false;
                    try {
                        load_prefix(bytes, n);
                    } catch (const xcdat::exception&) {
                        threw = true;
                    } catch (...) {
                        // not an xcdat::exception: counts as "did not throw xcdat::exception"
                    }
                    if (!threw) {
                        if (!list.empty()) list.push_back(',');
                        list += u64s(n);
                    }
                }
                out("truncall " + u64s(bytes.size()) + " " + (list.empty() ? std::string("-") : list));
            });
        } else if (o == "PIPELOAD") {   // the saved bytes arrive through a named pipe (not seekable): `pipeload <hex of a re-save>`
            if (tk.size() != 1) return (void)bad_arg(out, line);
            guarded(out, "pipeload", [&] {
                std::vector<std::uint8_t> bytes = saved_image(*cur);
                const std::string fifo = tmp_path("_fifo");
                if (::mkfifo(fifo.c_str(), 0600) != 0) throw std::runtime_error("mkfifo failed");
                const pid_t w = ::fork();
                if (w == 0) {
                    const int fd = ::open(fifo.c_str(), O_WRONLY);
                    size_t off = 0;
                    while (fd >= 0 && off < bytes.size()) {
                        const ssize_t n = ::write(fd, bytes.data() + off, std::min<size_t>(bytes.size() - off, 3000));
                        if (n <= 0) break;
                        off += static_cast<size_t>(n);
                    }
                    if (fd >= 0) ::close(fd);
                    ::_exit(0);
                }
                std::string res;
                try {
                    Trie t = xcdat::load<Trie>(fifo);
                    std::vector<std::uint8_t> again = saved_image(t);
                    res = (again == bytes) ? "same" : "differs";
                } catch (const xcdat::exception&) {
                    res = "exc";
                } catch (const std::exception& e) {
                    res = "other:" + exc_name(e);
                }
                int st = 0;
                if (w > 0) { ::kill(w, SIGKILL); ::waitpid(w, &st, 0); }
                ::unlink(fifo.c_str());
                out("pipeload " + res);
            });
        } else if (o == "RELOADHERE") {  // the current object is assigned its own reloaded save; live iterators stay bound to it
            if (tk.size() != 1) return (void)bad_arg(out, line);
            guarded(out, "reloadhere", [&] {
                TempFile tf;
                xcdat::save(*cur, tf.path);
                *cur = xcdat::load<Trie>(tf.path);
                scrub_heap();
                out("reloadhere ok");
            });
        } else if (o == "SAVEOVER") {   // save onto an existing file that is <extra> bytes longer than the dictionary
            std::uint64_t extra = 0;
            if (tk.size() != 2 || !parse_u64(tk[1], extra)) return (void)bad_arg(out, line);
            guarded(out, "saveover", [&] {
                std::vector<std::uint8_t> want = saved_image(*cur);
                TempFile tf;
                {
                    std::ofstream pre(tf.path, std::ios::binary);
                    std::string junk(want.size() + extra, '\xAA');
                    pre.write(junk.data(), static_cast<std::streamsize>(junk.size()));
                    pre.close();
                    if (!pre) throw std::runtime_error("cannot prepare the existing file");
                }
                std::uint64_t r = xcdat::save(*cur, tf.path);
                std::vector<std::uint8_t> got;
                if (!read_file(tf.path, got)) throw std::runtime_error("cannot read saved file");
                out("saveover ret:" + u64s(r) + " size:" + u64s(got.size()) + " same:" + (got == want ? "1" : "0"));
            });
        } else if (o == "LIMIT") {
            std::uint64_t n = 0;
            if (tk.size() != 2 || !parse_u64(tk[1], n)) return (void)bad_arg(out, line);
            guarded(out, "limit", [&] {
                TempFile tf;
                std::string rep = limited_save(*cur, tf.path, n);
                auto sz = file_size(tf.path);
                std::string ld;
                try {
                    Trie t = xcdat::load<Trie>(tf.path);
                    (void)t;
                    ld = "ok";
                } catch (const xcdat::exception&) {
                    ld = "exc";
                } catch (const std::exception& e) {
                    ld = "other:" + exc_name(e);
                } catch (...) {
                    ld = "other:unknown";
                }
                out("limit " + rep + " size:" + (sz.has_value() ? u64s(sz.value()) : std::string("-")) + " load:" + ld);
            });
        } else if (o == "LIMITT") {   // transient refusal at byte offset n: `limitt exc` or `limitt ret:<count> size:<n> load:<..>`
            std::uint64_t n = 0;
            if (tk.size() != 2 || !parse_u64(tk[1], n)) return (void)bad_arg(out, line);
            guarded(out, "limitt", [&] {
                TempFile tf;
                std::string rep = limited_save(*cur, tf.path, n, true);
                if (rep.rfind("ret:", 0) != 0) {
                    // save reported the failure: what is on disk is unspecified (possibly rewritten garbage), do not load it
                    out("limitt " + rep);
                    return;
                }
                auto sz = file_size(tf.path);
                std::string ld;
                try {
                    Trie t = xcdat::load<Trie>(tf.path);
                    (void)t;
                    ld = "ok";
                } catch (const xcdat::exception&) {
                    ld = "exc";
                } catch (...) {
                    ld = "other";
                }
                out("limitt " + rep + " size:" + (sz.has_value() ? u64s(sz.value()) : std::string("-")) + " load:" + ld);
            });
        } else if (o == "XLRO") {   // load the saved file as an unprivileged user who may read but not write it
            if (tk.size() != 1) return (void)bad_arg(out, line);
            guarded(out, "xlro", [&] {
                TempFile tf;
                xcdat::save(*cur, tf.path);
                ::chmod(tf.path.c_str(), 0444);
                int pfd[2];
                if (::pipe(pfd) != 0) throw std::runtime_error("pipe failed");
                pid_t g = ::fork();
                if (g == 0) {
                    ::close(pfd[0]);
                    const char* msg = "skip";
                    if (::setgroups(0, nullptr) == 0 && ::setgid(65534) == 0 && ::setuid(65534) == 0 &&
                        ::access(tf.path.c_str(), R_OK) == 0 && ::access(tf.path.c_str(), W_OK) != 0) {
                        try {
                            Trie t = xcdat::load<Trie>(tf.path);
                            (void)t;
                            msg = "ok";
                        } catch (const xcdat::exception&) {
                            msg = "exc";
                        } catch (...) {
                            msg = "other";
                        }
                    }
                    write_all(pfd[1], msg, std::strlen(msg));
                    ::_exit(0);
                }
                ::close(pfd[1]);
                std::string msg;
                char buf[64];
                for (;;) {
                    ssize_t r = ::read(pfd[0], buf, sizeof(buf));
                    if (r < 0 && errno == EINTR) continue;
                    if (r <= 0) break;
                    msg.append(buf, static_cast<size_t>(r));
                }
                ::close(pfd[0]);
                int st = 0;
                while (::waitpid(g, &st, 0) < 0 && errno == EINTR) {
                }
                out("xlro " + (msg.empty() ? std::string("other") : msg));
            });
        } else if (o == "LIMITALL") {
            if (tk.size() != 1) return (void)bad_arg(out, line);
            guarded(out, "limitall", [&] {
                std::uint64_t size = 0;
                {
                    TempFile tf;
                    xcdat::save(*cur, tf.path);
                    size = file_size(tf.path).value_or(0);
                }
                std::string list;
                for (std::uint64_t n = 0; n < size; ++n) {
                    TempFile tf;
                    std::string rep = limited_save(*cur, tf.path, n);
                    if (rep.compare(0, 4, "ret:") == 0) {
                        if (!list.empty()) list.push_back(',');
                        list += u64s(n);
                    }
                }
                out("limitall " + u64s(size) + " " + (list.empty() ? std::string("-") : list));
            });
        } else if (o == "DEVFULL") {
            if (tk.size() != 1) return (void)bad_arg(out, line);
            guarded(out, "devfull", [&] {
                std::uint64_t r = xcdat::save(*cur, "/dev/full");
                out("devfull ret:" + u64s(r));
            });
        } else if (o == "XL" || o == "XM") {
            std::uint64_t v = 0;
            if (tk.size() != 2 || !parse_u64(tk[1], v) || (v != 7 && v != 8 && v != 15 && v != 16)) {
                return (void)bad_arg(out, line);
            }
            const bool mm = o == "XM";
            const char* name = mm ? "xm" : "xl";
            switch (v) {
                case 7: cross_open<xcdat::trie_7_type>(*cur, mm, name, out); break;
                case 8: cross_open<xcdat::trie_8_type>(*cur, mm, name, out); break;
                case 15: cross_open<xcdat::trie_15_type>(*cur, mm, name, out); break;
                default: cross_open<xcdat::trie_16_type>(*cur, mm, name, out); break;
            }
        } else if (o == "TID") {
            if (tk.size() != 1) return (void)bad_arg(out, line);
            guarded(out, "tid", [&] {
                TempFile tf;
                xcdat::save(*cur, tf.path);
                std::uint32_t id = xcdat::get_type_id(tf.path);
                out("tid " + u64s(id));
            });
        } else if (o == "BADPATH") {
            op_badpath(tk, line);
        } else {
            out("error unknown-op " + line);
        }
    }
};

template <class Trie>
void run_trie_case(const Case& c, bool bin, char cont, const Out& out) {
    std::vector<std::string> keys;
    size_t i = read_keys(c, keys, out);
    TrieSession<Trie> ses(out);
    bool ok = false;
    guarded(out, "build", [&] {
        auto t = build_trie<Trie>(keys, bin, cont);
        for (auto& k : keys) scrub(k.data(), k.size());
        keys.clear();
        keys.shrink_to_fit();
        ses.adopt_built(std::move(t));
        ok = true;
        out("build ok");
    });
    if (!ok) return;
    for (; i < c.body.size(); ++i) {
        auto tk = split_ws(c.body[i]);
        if (tk.empty()) continue;
        ses.op(tk, c.body[i]);
    }
}

// ---------------------------------------------------------------------------
// kind `conc`
// ---------------------------------------------------------------------------

struct Barrier {
    std::mutex m;
    std::condition_variable cv;
    size_t expected;
    size_t arrived = 0;
    explicit Barrier(size_t n) : expected(n) {}
    void wait() {
        std::unique_lock<std::mutex> lk(m);
        if (++arrived >= expected) {
            cv.notify_all();
        } else {
            cv.wait(lk, [&] { return arrived >= expected; });
        }
    }
};

struct ThreadOp {
    std::vector<std::string> tk;
    std::string line;
};

template <class Trie>
void run_conc_case(const Case& c, bool bin, const std::string& src, size_t nthreads, const Out& out) {
    std::vector<std::string> keys;
    size_t i = read_keys(c, keys, out);

    std::vector<std::unique_ptr<Trie>> objs;
    std::unique_ptr<Mapping> mapping;
    const Trie* obj = nullptr;
    bool ok = false;
    guarded(out, "build", [&] {
        auto t = build_trie<Trie>(keys, bin, 's');
        for (auto& k : keys) scrub(k.data(), k.size());
        keys.clear();
        obj = t.get();
        objs.push_back(std::move(t));
        ok = true;
        out("build ok");
    });
    if (!ok) return;

    // the saved bytes of the built object (code-table oracle for the model; see PROTOCOL.md)
    guarded(out, "file", [&] {
        TempFile tf;
        xcdat::save(*obj, tf.path);
        std::vector<std::uint8_t> bytes;
        if (!read_file(tf.path, bytes)) throw std::runtime_error("cannot read saved file");
        out("file " + hex_of(bytes.data(), bytes.size()));
    });

    if (src != "built") {
        ok = false;
        guarded(out, "use", [&] {
            TempFile tf;
            xcdat::save(*obj, tf.path);
            if (src == "load") {
                auto p = std::make_unique<Trie>(xcdat::load<Trie>(tf.path));
                obj = p.get();
                objs.push_back(std::move(p));
            } else {
                std::vector<std::uint8_t> bytes;
                if (!read_file(tf.path, bytes)) throw std::runtime_error("cannot read saved file");
                tf.remove();
                mapping = map_image(bytes, 0, false);
                auto p = std::make_unique<Trie>(xcdat::mmap<Trie>(mapping->image));
                obj = p.get();
                objs.push_back(std::move(p));
            }
            ok = true;
        });
        if (!ok) return;
    }

    std::vector<std::vector<ThreadOp>> ops(nthreads);
    for (; i < c.body.size(); ++i) {
        auto tk = split_ws(c.body[i]);
        if (tk.empty()) continue;
        std::uint64_t k = 0;
        if (tk[0] != "T") {
            out("error unknown-op " + c.body[i]);
            continue;
        }
        if (tk.size() < 3 || !parse_u64(tk[1], k) || k >= nthreads) {
            out("error bad-thread " + c.body[i]);
            continue;
        }
        ThreadOp op;
        op.tk.assign(tk.begin() + 2, tk.end());
        for (size_t j = 0; j < op.tk.size(); ++j) {
            if (j != 0) op.line.push_back(' ');
            op.line += op.tk[j];
        }
        ops[static_cast<size_t>(k)].push_back(std::move(op));
    }

    std::vector<std::vector<std::string>> lines(nthreads);
    Barrier barrier(nthreads);
    const Trie& shared = *obj;

    auto worker = [&](size_t k) {
        Out tout;
        tout.vec = &lines[k];
        barrier.wait();
        for (const auto& op : ops[k]) {
            try {
                if (query_op(shared, op.tk, op.line, tout)) continue;
                if (op.tk[0] == "MEM" && op.tk.size() == 1) {
                    guarded(tout, "mem", [&] { tout("mem " + u64s(xcdat::memory_in_bytes(shared))); });
                } else if (op.tk[0] == "SAVEBAD" && op.tk.size() == 2) {   // a save that must fail: `savebad exc`
                    const std::string target = op.tk[1] == "full" ? std::string("/dev/full") : std::string("/nonexistent-verif-dir/out.bin");
                    try {
                        std::uint64_t r = xcdat::save(shared, target);
                        tout("savebad ret:" + u64s(r));
                    } catch (const xcdat::exception& e) {
                        // the message of the exception being handled must be this thread's own
                        const std::string w = e.what();
                        const bool mine = op.tk[1] == "full" ? w.find("write") != std::string::npos : w.find("open") != std::string::npos;
                        tout(mine ? "savebad exc" : "savebad exc-with-foreign-message:" + w.substr(w.rfind('/') == std::string::npos ? 0 : w.rfind('/') + 1));
                    } catch (...) {
                        tout("savebad other");
                    }
                } else if (op.tk[0] == "SAVE" && op.tk.size() == 1) {
                    guarded(tout, "save", [&] {
                        TempFile tf;
                        std::uint64_t r = xcdat::save(shared, tf.path);
                        tout("save " + u64s(r));
                    });
                } else {
                    tout("error unknown-op " + op.line);
                }
            } catch (...) {
                tout("error driver-exception " + op.line);
            }
        }
    };

    std::vector<std::thread> threads;
    threads.reserve(nthreads);
    for (size_t k = 0; k < nthreads; ++k) threads.emplace_back(worker, k);
    for (auto& t : threads) t.join();

    for (size_t k = 0; k < nthreads; ++k) {
        for (const auto& l : lines[k]) out("t " + u64s(k) + " " + l);
    }
}

// ---------------------------------------------------------------------------
// kind `bv`
// ---------------------------------------------------------------------------

void run_bv_case(const Case& c, const Out& out) {
    bool rank = false, sel = false;
    if (c.args.size() != 2 || !parse_bit(c.args[0], rank) || !parse_bit(c.args[1], sel)) {
        out("error bad-case-args");
        return;
    }
    xcdat::bit_vector::builder b;
    std::unique_ptr<xcdat::bit_vector> bv;

    for (const auto& line : c.body) {
        auto tk = split_ws(line);
        if (tk.empty()) continue;
        const std::string& o = tk[0];
        std::uint64_t x = 0;
        bool bit = false;
        if (o == "PUSH") {
            if (tk.size() > 2) { bad_arg(out, line); continue; }
            bool good = true;
            if (tk.size() == 2) {
                for (char ch : tk[1]) good = good && (ch == '0' || ch == '1');
            }
            if (!good) { bad_arg(out, line); continue; }
            guarded(out, "push", [&] {
                if (tk.size() == 2) {
                    for (char ch : tk[1]) b.push_back(ch == '1');
                }
            });
        } else if (o == "PUSHN") {   // PUSHN <count> <bit>: push_back(bit) count times (scale tests)
            if (tk.size() != 3 || !parse_u64(tk[1], x) || !parse_bit(tk[2], bit)) { bad_arg(out, line); continue; }
            guarded(out, "pushn", [&] { for (std::uint64_t i = 0; i < x; ++i) b.push_back(bit); });
        } else if (o == "BUILDQ") {  // build without dumping the state; prints size and number of ones
            if (tk.size() != 1) { bad_arg(out, line); continue; }
            guarded(out, "bvq", [&] {
                bv.reset();
                bv = std::make_unique<xcdat::bit_vector>(b, rank, sel);
                out("bvq " + u64s(bv->size()) + " " + u64s(bv->num_ones()));
            });
        } else if (o == "SET") {
            if (tk.size() != 3 || !parse_u64(tk[1], x) || !parse_bit(tk[2], bit)) { bad_arg(out, line); continue; }
            guarded(out, "set", [&] { b.set_bit(x, bit); });
        } else if (o == "RESIZE") {
            if (tk.size() != 2 || !parse_u64(tk[1], x)) { bad_arg(out, line); continue; }
            guarded(out, "resize", [&] { b.resize(x); });
        } else if (o == "BGET") {
            if (tk.size() != 2 || !parse_u64(tk[1], x)) { bad_arg(out, line); continue; }
            guarded(out, "bget", [&] { out(std::string("bget ") + (b[x] ? "1" : "0")); });
        } else if (o == "BSIZE") {
            if (tk.size() != 1) { bad_arg(out, line); continue; }
            guarded(out, "bsize", [&] { out("bsize " + u64s(b.size())); });
        } else if (o == "BUILD") {
            if (tk.size() != 1) { bad_arg(out, line); continue; }
            guarded(out, "bv", [&] {
                bv.reset();
                bv = std::make_unique<xcdat::bit_vector>(b, rank, sel);
                out("bv " + component_hex(*bv));
            });
        } else if (o == "GET" || o == "RANK" || o == "SELECT") {
            if (tk.size() != 2 || !parse_u64(tk[1], x)) { bad_arg(out, line); continue; }
            if (!bv) { out("error not-built " + line); continue; }
            if (o == "GET") {
                guarded(out, "get", [&] { out(std::string("get ") + ((*bv)[x] ? "1" : "0")); });
            } else if (o == "RANK") {
                guarded(out, "rank", [&] { out("rank " + u64s(bv->rank(x))); });
            } else {
                guarded(out, "select", [&] { out("select " + u64s(bv->select(x))); });
            }
        } else if (o == "ALL") {
            if (tk.size() != 1) { bad_arg(out, line); continue; }
            if (!bv) { out("error not-built " + line); continue; }
            guarded(out, "allget", [&] {
                std::string s;
                for (std::uint64_t i = 0; i < bv->size(); ++i) s.push_back((*bv)[i] ? '1' : '0');
                out("allget " + (s.empty() ? std::string("-") : s));
            });
            guarded(out, "allrank", [&] {
                if (!rank) {
                    out("allrank -");
                } else {
                    out("allrank " + comma_list(bv->size() + 1, [&](std::uint64_t i) { return u64s(bv->rank(i)); }));
                }
            });
            guarded(out, "allselect", [&] {
                if (!sel) {
                    out("allselect -");
                } else {
                    out("allselect " + comma_list(bv->num_ones(), [&](std::uint64_t n) { return u64s(bv->select(n)); }));
                }
            });
        } else {
            out("error unknown-op " + line);
        }
    }
}

// ---------------------------------------------------------------------------
// kind `cv`
// ---------------------------------------------------------------------------

template <class T>
std::vector<T> narrowed(const std::vector<std::uint64_t>& v) {
    std::vector<T> r;
    r.reserve(v.size());
    for (std::uint64_t x : v) {
        if (x > std::numeric_limits<T>::max()) throw std::runtime_error("value does not fit the container type");
        r.push_back(static_cast<T>(x));
    }
    return r;
}

void run_cv_case(const Case& c, const Out& out) {
    std::vector<std::uint64_t> vals;
    std::unique_ptr<xcdat::compact_vector> cv;
    std::string ctype = "u64";   // element type of the container handed to the constructor (op CT)
    for (const auto& line : c.body) {
        auto tk = split_ws(line);
        if (tk.empty()) continue;
        const std::string& o = tk[0];
        std::uint64_t x = 0;
        if (o == "V") {
            if (tk.size() != 2 || !parse_u64(tk[1], x)) { bad_arg(out, line); continue; }
            vals.push_back(x);
        } else if (o == "CT") {       // silent: selects the container element type u8|u16|u32|u64
            if (tk.size() != 2 || (tk[1] != "u8" && tk[1] != "u16" && tk[1] != "u32" && tk[1] != "u64" && tk[1] != "deque")) { bad_arg(out, line); continue; }
            ctype = tk[1];
        } else if (o == "BUILD") {
            if (tk.size() != 1) { bad_arg(out, line); continue; }
            guarded(out, "cv", [&] {
                cv.reset();
                if (ctype == "u8") {
                    const std::vector<std::uint8_t> ref = narrowed<std::uint8_t>(vals);
                    cv = std::make_unique<xcdat::compact_vector>(ref);
                } else if (ctype == "u16") {
                    const std::vector<std::uint16_t> ref = narrowed<std::uint16_t>(vals);
                    cv = std::make_unique<xcdat::compact_vector>(ref);
                } else if (ctype == "deque") {      // random access but not contiguous
                    const std::deque<std::uint64_t> ref(vals.begin(), vals.end());
                    cv = std::make_unique<xcdat::compact_vector>(ref);
                } else if (ctype == "u32") {
                    const std::vector<std::uint32_t> ref = narrowed<std::uint32_t>(vals);
                    cv = std::make_unique<xcdat::compact_vector>(ref);
                } else {
                    const std::vector<std::uint64_t>& ref = vals;
                    cv = std::make_unique<xcdat::compact_vector>(ref);
                }
                out("cv " + component_hex(*cv));
            });
        } else if (o == "ALL") {
            if (tk.size() != 1) { bad_arg(out, line); continue; }
            if (!cv) { out("error not-built " + line); continue; }
            guarded(out, "all", [&] {
                out("all " + comma_list(cv->size(), [&](std::uint64_t i) { return u64s((*cv)[i]); }));
            });
        } else if (o == "GET") {
            if (tk.size() != 2 || !parse_u64(tk[1], x)) { bad_arg(out, line); continue; }
            if (!cv) { out("error not-built " + line); continue; }
            guarded(out, "get", [&] { out("get " + u64s((*cv)[x])); });
        } else {
            out("error unknown-op " + line);
        }
    }
}

// ---------------------------------------------------------------------------
// kind `bc`
// ---------------------------------------------------------------------------

struct bc_unit {
    std::uint64_t base;
    std::uint64_t check;
};

template <class Bc>
void run_bc_case(const Case& c, const Out& out) {
    std::vector<bc_unit> units;
    std::vector<bool> leaf;
    std::unique_ptr<Bc> bc;
    for (const auto& line : c.body) {
        auto tk = split_ws(line);
        if (tk.empty()) continue;
        const std::string& o = tk[0];
        if (o == "U") {
            std::uint64_t b = 0, ch = 0;
            bool lf = false;
            if (tk.size() != 4 || !parse_u64(tk[1], b) || !parse_u64(tk[2], ch) || !parse_bit(tk[3], lf)) {
                bad_arg(out, line);
                continue;
            }
            units.push_back(bc_unit{b, ch});
            leaf.push_back(lf);
        } else if (o == "BUILD") {
            if (tk.size() != 1) { bad_arg(out, line); continue; }
            guarded(out, "bc", [&] {
                bc.reset();
                xcdat::bit_vector::builder lv;
                for (bool lf : leaf) lv.push_back(lf);
                const std::vector<bc_unit>& ref = units;
                bc = std::make_unique<Bc>(ref, std::move(lv));
                out("bc " + component_hex(*bc));
            });
        } else if (o == "ALL") {
            if (tk.size() != 1) { bad_arg(out, line); continue; }
            if (!bc) { out("error not-built " + line); continue; }
            const std::uint64_t n = bc->num_units();
            guarded(out, "counts", [&] {
                out("counts " + u64s(bc->num_units()) + " " + u64s(bc->num_free_units()) + " " + u64s(bc->num_nodes()) +
                    " " + u64s(bc->num_leaves()));
            });
            guarded(out, "allleaf", [&] {
                std::string s;
                for (std::uint64_t i = 0; i < n; ++i) s.push_back(bc->is_leaf(i) ? '1' : '0');
                out("allleaf " + (s.empty() ? std::string("-") : s));
            });
            guarded(out, "allcheck", [&] {
                out("allcheck " + comma_list(n, [&](std::uint64_t i) { return u64s(bc->check(i)); }));
            });
            guarded(out, "allbase", [&] {
                out("allbase " + comma_list(n, [&](std::uint64_t i) {
                        return bc->is_leaf(i) ? std::string("-") : u64s(bc->base(i));
                    }));
            });
            guarded(out, "alllink", [&] {
                out("alllink " + comma_list(n, [&](std::uint64_t i) {
                        return bc->is_leaf(i) ? u64s(bc->link(i)) : std::string("-");
                    }));
            });
        } else {
            out("error unknown-op " + line);
        }
    }
}

// ---------------------------------------------------------------------------
// kind `tail`
// ---------------------------------------------------------------------------

void run_tail_case(const Case& c, const Out& out) {
    bool bin = false;
    if (c.args.size() != 1 || !parse_bit(c.args[0], bin)) {
        out("error bad-case-args");
        return;
    }
    auto tb = std::make_unique<xcdat::tail_vector::builder>();
    std::unique_ptr<Corpus> corpus;      // op WIN: every suffix is a window of one shared buffer
    std::vector<std::unique_ptr<Block>> blocks;
    std::vector<std::uint64_t> nposs;
    std::unique_ptr<xcdat::tail_vector> tv;
    bool completed = false;

    for (const auto& line : c.body) {
        auto tk = split_ws(line);
        if (tk.empty()) continue;
        const std::string& o = tk[0];
        std::string bytes;
        std::uint64_t x = 0;
        if (o == "S") {
            if (tk.size() != 3 || !parse_hex(tk[1], bytes) || !parse_u64(tk[2], x)) { bad_arg(out, line); continue; }
            if (completed) { out("error already-built " + line); continue; }
            nposs.push_back(x);
            guarded(out, "s", [&] {
                if (corpus) {
                    tb->set_suffix(corpus->window(bytes), x);
                } else {
                    blocks.push_back(std::make_unique<Block>(bytes));
                    tb->set_suffix(blocks.back()->sv(), x);
                }
            });
        } else if (o == "WIN") {     // silent; must precede the S lines
            std::vector<std::string> all;
            for (const auto& l2 : c.body) {
                auto t2 = split_ws(l2);
                std::string b2;
                if (t2.size() == 3 && t2[0] == "S" && parse_hex(t2[1], b2)) all.push_back(b2);
            }
            corpus = std::make_unique<Corpus>(all);
        } else if (o == "BUILD") {
            if (tk.size() != 1) { bad_arg(out, line); continue; }
            if (completed) { out("error already-built " + line); continue; }
            completed = true;
            std::map<std::uint64_t, std::uint64_t> last;
            guarded(out, "tail", [&] {
                try {
                    tb->complete(bin, [&](std::uint64_t npos, std::uint64_t tpos) { last[npos] = tpos; });
                } catch (...) {
                    for (auto& b : blocks) b->scrub_bytes();
                    blocks.clear();
                    if (corpus) corpus->blk->scrub_bytes();
                    corpus.reset();
                    throw;
                }
                // The suffix views only have to stay valid until complete() has run.
                for (auto& b : blocks) b->scrub_bytes();
                blocks.clear();
                if (corpus) corpus->blk->scrub_bytes();
                corpus.reset();
                tv = std::make_unique<xcdat::tail_vector>(std::move(*tb));
                tb.reset();
                out("tail " + component_hex(*tv));
                std::string ln = "pos";
                for (std::uint64_t np : nposs) {
                    auto it = last.find(np);
                    ln += " " + u64s(np) + ":" + (it == last.end() ? std::string("?") : u64s(it->second));
                }
                out(ln);
            });
        } else if (o == "M" || o == "PM") {
            if (tk.size() != 3 || !parse_hex(tk[1], bytes) || !parse_u64(tk[2], x)) { bad_arg(out, line); continue; }
            if (!tv) { out("error not-built " + line); continue; }
            if (o == "M") {
                guarded(out, "m", [&] {
                    Block b(bytes);
                    out(std::string("m ") + (tv->match(b.sv(), x) ? "1" : "0"));
                });
            } else {
                guarded(out, "pm", [&] {
                    Block b(bytes);
                    auto r = tv->prefix_match(b.sv(), x);
                    out(r.has_value() ? "pm " + u64s(r.value()) : std::string("pm -"));
                });
            }
        } else if (o == "DEC") {
            if (tk.size() != 2 || !parse_u64(tk[1], x)) { bad_arg(out, line); continue; }
            if (!tv) { out("error not-built " + line); continue; }
            guarded(out, "dec", [&] {
                std::string s;
                tv->decode(x, [&](char ch) { s.push_back(ch); });
                out("dec " + hex_of(s));
            });
        } else {
            out("error unknown-op " + line);
        }
    }
}

// ---------------------------------------------------------------------------
// kind `words`
// ---------------------------------------------------------------------------

void run_words_case(const Case& c, const Out& out) {
    namespace bt = xcdat::bit_tools;
    for (const auto& line : c.body) {
        auto tk = split_ws(line);
        if (tk.empty()) continue;
        const std::string& o = tk[0];
        std::uint64_t x = 0, y = 0;
        if (o == "W") {
            if (tk.size() != 3 || !parse_u64(tk[1], x) || !parse_u64(tk[2], y)) { bad_arg(out, line); continue; }
            guarded(out, "w", [&] {
                const std::uint64_t pc = bt::popcount(x);
                out("w " + u64s(pc) + " " + u64s(bt::msb(x)) + " " +
                    (y < pc ? u64s(bt::select_in_word(x, y)) : std::string("-")));
            });
        } else if (o == "UL") {
            if (tk.size() != 3 || !parse_u64(tk[1], x) || !parse_u64(tk[2], y)) { bad_arg(out, line); continue; }
            guarded(out, "ul", [&] { out("ul " + u64s(bt::uleq_step_9(x, y))); });
        } else if (o == "BC") {
            if (tk.size() != 2 || !parse_u64(tk[1], x)) { bad_arg(out, line); continue; }
            guarded(out, "bcnt", [&] { out("bcnt " + u64s(bt::byte_counts(x))); });
        } else if (o == "BP") {
            if (tk.size() != 2 || !parse_u64(tk[1], x)) { bad_arg(out, line); continue; }
            guarded(out, "bp", [&] { out("bp " + u64s(static_cast<std::uint64_t>(bt::bit_position(x)))); });
        } else {
            out("error unknown-op " + line);
        }
    }
}

// ---------------------------------------------------------------------------
// dispatch (runs in the forked child)
// ---------------------------------------------------------------------------

void dispatch_case(const Case& c, const Out& out) {
    if (c.kind == "trie") {
        std::uint64_t v = 0;
        bool bin = false;
        if (c.args.size() != 3 || !parse_u64(c.args[0], v) || !parse_bit(c.args[1], bin) || c.args[2].size() != 1 ||
            (c.args[2][0] != 's' && c.args[2][0] != 'v' && c.args[2][0] != 'c' && c.args[2][0] != 'w')) {
            out("error bad-case-args");
            return;
        }
        const char cont = c.args[2][0];
        switch (v) {
            case 7: run_trie_case<xcdat::trie_7_type>(c, bin, cont, out); break;
            case 8: run_trie_case<xcdat::trie_8_type>(c, bin, cont, out); break;
            case 15: run_trie_case<xcdat::trie_15_type>(c, bin, cont, out); break;
            case 16: run_trie_case<xcdat::trie_16_type>(c, bin, cont, out); break;
            default: out("error bad-case-args"); break;
        }
    } else if (c.kind == "conc") {
        std::uint64_t v = 0, nt = 0;
        bool bin = false;
        if (c.args.size() != 4 || !parse_u64(c.args[0], v) || !parse_bit(c.args[1], bin) ||
            (c.args[2] != "built" && c.args[2] != "load" && c.args[2] != "mmap") || !parse_u64(c.args[3], nt) || nt == 0 ||
            nt > 256) {
            out("error bad-case-args");
            return;
        }
        switch (v) {
            case 7: run_conc_case<xcdat::trie_7_type>(c, bin, c.args[2], nt, out); break;
            case 8: run_conc_case<xcdat::trie_8_type>(c, bin, c.args[2], nt, out); break;
            case 15: run_conc_case<xcdat::trie_15_type>(c, bin, c.args[2], nt, out); break;
            case 16: run_conc_case<xcdat::trie_16_type>(c, bin, c.args[2], nt, out); break;
            default: out("error bad-case-args"); break;
        }
    } else if (c.kind == "bv") {
        run_bv_case(c, out);
    } else if (c.kind == "cv") {
        if (!c.args.empty()) return out("error bad-case-args");
        run_cv_case(c, out);
    } else if (c.kind == "bc") {
        std::uint64_t v = 0;
        if (c.args.size() != 1 || !parse_u64(c.args[0], v)) return out("error bad-case-args");
        switch (v) {
            case 7: run_bc_case<xcdat::bc_vector_7>(c, out); break;
            case 8: run_bc_case<xcdat::bc_vector_8>(c, out); break;
            case 15: run_bc_case<xcdat::bc_vector_15>(c, out); break;
            case 16: run_bc_case<xcdat::bc_vector_16>(c, out); break;
            default: out("error bad-case-args"); break;
        }
    } else if (c.kind == "tail") {
        run_tail_case(c, out);
    } else if (c.kind == "words") {
        if (!c.args.empty()) return out("error bad-case-args");
        run_words_case(c, out);
    } else {
        out("error unknown-kind " + c.kind);
    }
}

void run_case_in_child(const Case& c) {
    Out out;
    try {
        dispatch_case(c, out);
    } catch (const std::exception& e) {
        out("error driver-exception " + exc_name(e));
    } catch (...) {
        out("error driver-exception unknown");
    }
}

// ---------------------------------------------------------------------------
// parent side: fork, collect, classify
// ---------------------------------------------------------------------------

double now_sec() {
    struct timespec ts;
    clock_gettime(CLOCK_MONOTONIC, &ts);
    return static_cast<double>(ts.tv_sec) + static_cast<double>(ts.tv_nsec) * 1e-9;
}

struct Running {
    size_t idx = 0;
    pid_t pid = -1;
    int ofd = -1;
    int efd = -1;
    std::string obuf;
    std::string ebuf;
    double deadline = 0;
    bool timed_out = false;
    bool exited = false;
    int status = 0;
};

constexpr size_t kMaxStderrKeep = 4u << 20;

// Reads whatever is available; closes and sets fd = -1 on EOF / error.
void pump(int& fd, std::string& buf, size_t cap) {
    if (fd < 0) return;
    char tmp[65536];
    for (;;) {
        ssize_t r = ::read(fd, tmp, sizeof(tmp));
        if (r > 0) {
            if (buf.size() < cap) buf.append(tmp, std::min(static_cast<size_t>(r), cap - buf.size()));
            continue;
        }
        if (r < 0 && errno == EINTR) continue;
        if (r < 0 && (errno == EAGAIN || errno == EWOULDBLOCK)) return;
        ::close(fd);
        fd = -1;
        return;
    }
}

const char* sanitizer_kind(const std::string& err) {
    struct Marker {
        const char* text;
        const char* kind;
    };
    static const Marker markers[] = {
        {"ERROR: AddressSanitizer", "asan"}, {"runtime error:", "ubsan"},  {"ERROR: LeakSanitizer", "lsan"},
        {"WARNING: ThreadSanitizer", "tsan"}, {"MemorySanitizer", "msan"},
        // deadly-signal reports of the runtimes that intercept SIGSEGV themselves (same spirit as ASan's SEGV report)
        {"ERROR: ThreadSanitizer", "tsan"},   {"ERROR: UndefinedBehaviorSanitizer", "ubsan"},
    };
    size_t best = std::string::npos;
    const char* kind = nullptr;
    for (const auto& m : markers) {
        size_t p = err.find(m.text);
        if (p != std::string::npos && p < best) {
            best = p;
            kind = m.kind;
        }
    }
    return kind;
}

std::string finalize(const Case& c, Running& r) {
    std::string text = "case " + c.id + "\n";
    // only complete lines count as flushed
    size_t last_nl = r.obuf.rfind('\n');
    if (last_nl != std::string::npos) text.append(r.obuf, 0, last_nl + 1);

    std::string outcome;
    const char* san = sanitizer_kind(r.ebuf);
    if (san != nullptr) {
        outcome = std::string("sanitizer ") + san;
    } else if (r.timed_out) {
        outcome = "timeout";
    } else if (WIFSIGNALED(r.status)) {
        const int sig = WTERMSIG(r.status);
        if (sig == SIGABRT && r.ebuf.find("Assertion") != std::string::npos) {
            outcome = "abort";
        } else {
            outcome = "crash sig=" + std::to_string(sig);
        }
    } else if (WIFEXITED(r.status) && WEXITSTATUS(r.status) != 0) {
        outcome = "crash exit=" + std::to_string(WEXITSTATUS(r.status));
    }

    if (!outcome.empty()) {
        text += outcome + "\n";
        if (const char* logp = std::getenv("VERIF_STDERR_LOG"); logp != nullptr && *logp != '\0') {
            if (FILE* f = std::fopen(logp, "a")) {
                std::fprintf(f, "== %s\n", c.id.c_str());
                std::fwrite(r.ebuf.data(), 1, r.ebuf.size(), f);
                if (!r.ebuf.empty() && r.ebuf.back() != '\n') std::fputc('\n', f);
                std::fclose(f);
            }
        }
        cleanup_tmp_of(r.pid);
    }
    text += "end " + c.id + "\n";
    return text;
}

bool start_case(const std::vector<Case>& cases, size_t idx, double timeout, std::vector<Running>& active) {
    int op[2], ep[2];
    if (::pipe(op) != 0) return false;
    if (::pipe(ep) != 0) {
        ::close(op[0]);
        ::close(op[1]);
        return false;
    }
    std::fflush(stdout);
    std::fflush(stderr);
    pid_t pid = ::fork();
    if (pid < 0) {
        ::close(op[0]); ::close(op[1]); ::close(ep[0]); ::close(ep[1]);
        return false;
    }
    if (pid == 0) {
        ::setpgid(0, 0);
        ::prctl(PR_SET_PDEATHSIG, SIGKILL);
        for (const auto& a : active) {
            if (a.ofd >= 0) ::close(a.ofd);
            if (a.efd >= 0) ::close(a.efd);
        }
        ::close(op[0]);
        ::close(ep[0]);
        int devnull = ::open("/dev/null", O_RDONLY);
        if (devnull >= 0) {
            ::dup2(devnull, 0);
            if (devnull != 0) ::close(devnull);
        }
        ::dup2(op[1], 1);
        ::dup2(ep[1], 2);
        if (op[1] > 2) ::close(op[1]);
        if (ep[1] > 2) ::close(ep[1]);
        ::signal(SIGPIPE, SIG_IGN);
        run_case_in_child(cases[idx]);
        // Normal exit() so that at-exit sanitizer checks (LeakSanitizer, ThreadSanitizer) still run.
        std::exit(0);
    }
    ::setpgid(pid, pid);
    ::close(op[1]);
    ::close(ep[1]);
    ::fcntl(op[0], F_SETFL, ::fcntl(op[0], F_GETFL) | O_NONBLOCK);
    ::fcntl(ep[0], F_SETFL, ::fcntl(ep[0], F_GETFL) | O_NONBLOCK);
    Running r;
    r.idx = idx;
    r.pid = pid;
    r.ofd = op[0];
    r.efd = ep[0];
    r.deadline = now_sec() + timeout;
    active.push_back(std::move(r));
    return true;
}

void run_all(const std::vector<Case>& cases, double timeout, size_t jobs) {
    std::vector<std::string> results(cases.size());
    std::vector<char> done(cases.size(), 0);
    std::vector<Running> active;
    size_t next_start = 0, next_print = 0;

    while (next_print < cases.size()) {
        while (active.size() < jobs && next_start < cases.size()) {
            const size_t idx = next_start++;
            if (!start_case(cases, idx, timeout, active)) {
                results[idx] = "case " + cases[idx].id + "\nerror driver-fork-failed\nend " + cases[idx].id + "\n";
                done[idx] = 1;
            }
        }

        if (!active.empty()) {
            std::vector<struct pollfd> pfds;
            const double now = now_sec();
            double wait = 0.1;
            bool all_closed_pending = false;
            for (auto& a : active) {
                if (a.ofd >= 0) pfds.push_back({a.ofd, POLLIN, 0});
                if (a.efd >= 0) pfds.push_back({a.efd, POLLIN, 0});
                if (a.ofd < 0 && a.efd < 0) all_closed_pending = true;
                wait = std::min(wait, std::max(0.0, a.deadline - now));
            }
            if (all_closed_pending) wait = std::min(wait, 0.0005);
            int ms = static_cast<int>(wait * 1000.0);
            if (pfds.empty()) {
                ::usleep(static_cast<useconds_t>(std::max(wait, 0.0002) * 1e6));
            } else {
                if (ms == 0 && wait > 0) ms = 1;
                ::poll(pfds.data(), static_cast<nfds_t>(pfds.size()), ms);
            }

            for (auto& a : active) {
                pump(a.ofd, a.obuf, static_cast<size_t>(-1) / 2);
                pump(a.efd, a.ebuf, kMaxStderrKeep);
                if (!a.exited) {
                    int st = 0;
                    pid_t w = ::waitpid(a.pid, &st, WNOHANG);
                    if (w == a.pid) {
                        a.exited = true;
                        a.status = st;
                    }
                }
                if (!a.exited && now_sec() >= a.deadline) {
                    a.timed_out = true;
                    ::kill(-a.pid, SIGKILL);
                    ::kill(a.pid, SIGKILL);
                    int st = 0;
                    while (::waitpid(a.pid, &st, 0) < 0 && errno == EINTR) {
                    }
                    a.exited = true;
                    a.status = st;
                }
                if (a.exited) {
                    // make sure no straggler (grandchild) keeps writing, then drain what is there
                    ::kill(-a.pid, SIGKILL);
                    pump(a.ofd, a.obuf, static_cast<size_t>(-1) / 2);
                    pump(a.efd, a.ebuf, kMaxStderrKeep);
                    if (a.ofd >= 0) { ::close(a.ofd); a.ofd = -1; }
                    if (a.efd >= 0) { ::close(a.efd); a.efd = -1; }
                    results[a.idx] = finalize(cases[a.idx], a);
                    done[a.idx] = 1;
                }
            }
            active.erase(std::remove_if(active.begin(), active.end(), [](const Running& a) { return a.exited; }),
                         active.end());
        }

        while (next_print < cases.size() && done[next_print]) {
            std::fwrite(results[next_print].data(), 1, results[next_print].size(), stdout);
            std::fflush(stdout);
            std::string().swap(results[next_print]);
            ++next_print;
        }
    }
}

std::string trim(const std::string& s) {
    size_t a = 0, b = s.size();
    while (a < b && (s[a] == ' ' || s[a] == '\t' || s[a] == '\r' || s[a] == '\n')) ++a;
    while (b > a && (s[b - 1] == ' ' || s[b - 1] == '\t' || s[b - 1] == '\r' || s[b - 1] == '\n')) --b;
    return s.substr(a, b - a);
}

bool parse_case_file(std::istream& in, std::vector<Case>& cases) {
    std::string raw;
    bool in_case = false;
    Case cur;
    while (std::getline(in, raw)) {
        std::string line = trim(raw);
        if (line.empty() || line[0] == '#') continue;
        if (!in_case) {
            auto tk = split_ws(line);
            if (tk[0] == "CASE" && tk.size() >= 3) {
                cur = Case();
                cur.id = tk[1];
                cur.kind = tk[2];
                cur.args.assign(tk.begin() + 3, tk.end());
                in_case = true;
            } else {
                std::fprintf(stderr, "driver: ignoring line outside a case: %s\n", line.c_str());
            }
        } else if (line == "END") {
            cases.push_back(std::move(cur));
            in_case = false;
        } else {
            cur.body.push_back(std::move(line));
        }
    }
    if (in_case) cases.push_back(std::move(cur));  // tolerate a missing final END
    return true;
}

}  // namespace

int main(int argc, char** argv) {
    if (argc != 2) {
        std::fprintf(stderr, "usage: %s <casefile | ->\n", argv[0]);
        return 2;
    }
    g_page = ::sysconf(_SC_PAGESIZE);
    if (g_page <= 0) g_page = 4096;
    if (const char* t = std::getenv("VERIF_TMP"); t != nullptr && *t != '\0') g_tmpdir = t;

    double timeout = 20.0;
    if (const char* t = std::getenv("VERIF_CASE_TIMEOUT"); t != nullptr && *t != '\0') {
        char* end = nullptr;
        double v = std::strtod(t, &end);
        if (end != t && v > 0) timeout = v;
    }
    size_t jobs = 1;
    if (const char* j = std::getenv("VERIF_JOBS"); j != nullptr && *j != '\0') {
        long v = std::strtol(j, nullptr, 10);
        if (v >= 1 && v <= 1024) jobs = static_cast<size_t>(v);
    }

    std::vector<Case> cases;
    if (std::string(argv[1]) == "-") {
        parse_case_file(std::cin, cases);
    } else {
        std::ifstream ifs(argv[1]);
        if (!ifs.good()) {
            std::fprintf(stderr, "driver: cannot open %s\n", argv[1]);
            return 2;
        }
        parse_case_file(ifs, cases);
    }

    ::signal(SIGPIPE, SIG_IGN);
    run_all(cases, timeout, jobs);
    return 0;
}
