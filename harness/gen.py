"""Case generators (DESIGN.md section 4.1). Every random choice derives from one random.Random(seed).
A case is a dict: {id, kind, args:[...], keys:[bytes]|None, ops:[str], meta:{...}} rendered by render()."""
import itertools, random

def hexs(b):
    return b.hex() if b else '-'

def render(case):
    L = ['CASE %s %s %s' % (case['id'], case['kind'], ' '.join(map(str, case['args'])))]
    for k in case.get('keys') or []:
        L.append('K ' + hexs(k))
    L.extend(case['ops'])
    L.append('END')
    return '\n'.join(L) + '\n'

VARIANTS = [7, 8, 15, 16]

# ---------------------------------------------------------------- key sets
def all_strings(alpha, maxlen):
    out = [b'']
    for n in range(1, maxlen + 1):
        out += [bytes(t) for t in itertools.product(alpha, repeat=n)]
    return out

def small_scope_sets(alpha, maxlen, rng=None, limit=None):
    """all non-empty subsets of all strings of length <= maxlen over alpha (sorted); optionally a sample"""
    S = sorted(all_strings(alpha, maxlen))
    n = len(S)
    total = (1 << n) - 1
    if limit is None or limit >= total:
        masks = range(1, total + 1)
    else:
        masks = sorted(set(rng.randrange(1, total + 1) for _ in range(limit)))
    for m in masks:
        yield [S[i] for i in range(n) if m >> i & 1]

def rand_word(rng, alpha, lo, hi):
    return bytes(rng.choice(alpha) for _ in range(rng.randint(lo, hi)))

def shaped_sets(rng, count, big=False):
    """structured, mostly-valid key sets aimed at the proofs' case splits"""
    out = []
    alphas = [b'ab', b'abc', b'\x00ab', b'a\xff\x80', bytes(range(97, 123)), bytes(range(256)), b'\x00\xff', b'01',
              bytes(range(1, 256)), bytes(range(128, 256))]
    def add(desc, K):
        K = sorted(set(K))
        if K:
            out.append((desc, K))
    add('one-key', [b'apple'])
    add('empty-key-only', [b''])
    add('empty-and-one', [b'', b'x'])
    add('one-byte-key', [b'a'])
    add('two-leaves', [b'apple', b'b'])
    add('prefix-chain', [b'a', b'ab', b'abc', b'abcd'])
    add('prefix-chain-with-empty', [b'', b'a', b'ab', b'abc'])
    add('shared-endings', [b'xing', b'ying', b'zing', b'ng', b'wg', b'ing'])
    add('nul-inside', [b'a\x00b', b'a\x00c', b'a', b'\x00', b'\x00\x00'])
    add('nul-suffix-sharing', [b'ab', b'ac', b'dxyz', b'd\x00yz'])
    add('high-bytes', [b'\x80', b'\xff', b'a\xff', b'\xff\x00', b'\x7f', b'\xfe\xff'])
    add('f5-shape', [b'ab', b'ac', b'dxyz'])
    add('long-key', [b'k' * 300, b'k' * 299 + b'j', b'z'])
    # keys that occur inside other keys: handed over as windows of one buffer their suffix views alias (same start, other length)
    add('windows-1', [b'yab', b'zq', b'zyabcb'])
    add('windows-2', [b'ab', b'abcb', b'b', b'xab', b'xabcb', b'yabd'])
    add('long-suffixes', [b'alpha/0123456789abcdefghijklmnopqrstuvwxyz', b'beta/zyxwvutsrqponmlkjihgfedcba9876543210',
                          b'gamma/' + bytes(range(1, 60)), b'gamma/' + bytes(range(1, 40)) + b'!'])
    add('all-bytes-1', [bytes([b]) for b in range(256)])
    # alphabets at the exact limits: every byte value but one (the missing one gets the first unused code)
    add('all-nonnul-1', [bytes([b]) for b in range(1, 256)])
    add('all-but-ff-2', [bytes([b, 255 - b if b else 7]) for b in range(255)])
    add('nonnul-255-long', [bytes(range(1, 256))[i:] for i in range(0, 255, 17)] + [bytes([b]) * 2 for b in range(1, 256, 2)])
    while len(out) < count:
        a = rng.choice(alphas)
        shape = rng.choice(['rand', 'rand', 'chain', 'endings', 'dense', 'long'])
        if shape == 'rand':
            n = rng.choice([1, 2, 3, 5, 8, 20, 60, 200])
            add('rand', [rand_word(rng, a, 0, rng.choice([2, 4, 8, 12])) for _ in range(n)])
        elif shape == 'chain':
            w = rand_word(rng, a, 3, 12)
            add('chain', [w[:i] for i in range(rng.randint(0, 1), len(w) + 1)] + [rand_word(rng, a, 1, 5) for _ in range(3)])
        elif shape == 'endings':
            tails = [rand_word(rng, a, 1, 6) for _ in range(3)]
            add('endings', [rand_word(rng, a, 1, 3) + rng.choice(tails)[rng.randint(0, 2):] for _ in range(rng.randint(3, 30))])
        elif shape == 'dense':
            add('dense', all_strings(a[:3], 3)[rng.randint(0, 1):][:rng.randint(5, 40)])
        else:
            add('long', [rand_word(rng, a, 50, 400) for _ in range(rng.randint(1, 4))])
    if big:
        a = bytes(range(97, 123))
        add('big-4k', [rand_word(rng, a, 3, 9) for _ in range(3000)])       # > 4096 units: close_block inside expand
        add('big-bin', [rand_word(rng, bytes(range(256)), 1, 6) for _ in range(2500)])
        # gap-free shapes: every unit of the older blocks gets used, so block closing / free-list corner cases arise
        add('big-caterpillar', [b'a' * i + b'b' for i in range(1, 2101)])
        add('big-complete4', all_strings(b'abcd', 6)[1:])
        add('big-complete2', all_strings(b'\x00\xff', 11))
        add('big-comb', [bytes([97 + i % 26, 97 + (i // 26) % 26]) + b'x' * (i % 7) + bytes([48 + j]) for i in range(676) for j in range(4)])
        # a few hundred keys over (almost) all byte values: crowded nodes whose children span more than one 128-unit
        # half-block (the L1 block of trie_7), so the builder's block search leaves the node's own block
        for n in (220, 300, 400):
            add('big-wide-%d' % n, [rand_word(rng, bytes(range(0 if n != 300 else 1, 256)), 1, 4) for _ in range(n)])
    return out[:count + (9 if big else 0)]

def scale_sets(rng):
    """key sets at 'natural' size boundaries (powers of two): shared-prefix depth around 2^16, a stored suffix that makes
    the TAIL array exactly 2^16 / 2^20 bytes (+-1).  Run in the thorough tier and whenever an anchored source file
    differs from anchors.lock.json."""
    out = []
    for d in (65535, 65536, 65537):
        p = b'x' * d
        out.append(('scale-deep-%d' % d, sorted([p, p + b'a', p + b'ab', p + b'ac', p + b'b', p + b'bcd', b'y'])))
    for n in (2 ** 16, 2 ** 20):
        for delta in (-1, 0, 1):
            # NUL mode: chars = [0] + key + [0]  -> size = len + 2
            out.append(('scale-tail-%d%+d' % (n, delta), [b'k' * (n + delta - 2)]))
        out.append(('scale-tail2-%d' % n, sorted([b'a' + b'k' * (n // 2 - 2), b'b' + b'q' * (n - n // 2 - 3)])))
    return out

def huge_set(rng):
    """> 32768 units: second DAC level in the 15/16-bit variants"""
    a = bytes(range(97, 123))
    return ('huge-40k', sorted(set(rand_word(rng, a, 4, 10) for _ in range(24000))))

# ---------------------------------------------------------------- queries
def paired_deviations(k, rng):
    """two-byte deviations of k: the same XOR mask at two positions whose distance is a machine-word size
    (word-at-a-time comparisons that accumulate differences can cancel), a transposition, two different masks"""
    out = []
    n = len(k)
    def flip(pos_masks):
        b = bytearray(k)
        for i, m in pos_masks:
            b[i] ^= m
        return bytes(b)
    for d in (1, 2, 4, 8, 16, 32):
        if n > d:
            i = rng.randrange(n - d)
            out.append(flip([(i, 1), (i + d, 1)]))
            j = n - d - 1                      # the last position that still has a partner
            out.append(flip([(j, 0x20), (j + d, 0x20)]))
    if n >= 2:
        i = rng.randrange(n - 1)
        if k[i] != k[i + 1]:
            out.append(k[:i] + bytes([k[i + 1], k[i]]) + k[i + 2:])
        out.append(flip([(0, 0x80), (n - 1, 1)]))
    return [q for q in out if q != k]

def deviation_queries(K, rng, limit):
    """per-dictionary deviation closure (DESIGN 4.1 iii)"""
    Q = []
    seen = set()
    def add(q):
        if q not in seen:
            seen.add(q); Q.append(q)
    alpha = sorted(set(b for k in K for b in k)) or [97]
    foreign = [b for b in (0, 1, 0x7f, 0x80, 0xff, 0x41) if b not in alpha][:3]
    add(b'')
    ks = K if len(K) <= 40 else rng.sample(K, 40)
    for k in ks:
        add(k)
        for i in range(len(k)):
            add(k[:i])
        for b in alpha[:3] + foreign + [0]:
            add(k + bytes([b]))
        if k:
            i = rng.randrange(len(k))
            for b in alpha[:2] + foreign[:1] + [0]:
                add(k[:i] + bytes([b]) + k[i + 1:])
            add(k[:-1] + bytes([(k[-1] + 1) % 256]))
        o = rng.choice(K)
        add(k + o); add(k + b'\x00' + o[len(o) // 2:]); add(k + o[len(o) // 2:])
        add(k + k)
    for _ in range(10):
        add(rand_word(rng, bytes(alpha + foreign), 0, 6))
    if len(Q) > limit:
        head = Q[:limit // 2]
        Q = head + rng.sample(Q[limit // 2:], limit - len(head))
    # two-byte deviations of the longest keys (kept outside the sampling)
    for k in sorted(ks, key=len, reverse=True)[:4]:
        for q in paired_deviations(k, rng):
            add(q)
    return Q

def exhaustive_queries(alpha_plus, maxlen):
    return all_strings(alpha_plus, maxlen)

# ---------------------------------------------------------------- trie cases
def trie_case(cid, v, bin_, cont, K, ops, meta=None):
    return {'id': cid, 'kind': 'trie', 'args': [v, int(bin_), cont], 'keys': K, 'ops': ops, 'meta': meta or {}}

def battery(K, rng, qlimit, kinds=('L', 'P', 'R')):
    ops = []
    Q = deviation_queries(K, rng, qlimit)
    for q in Q:
        for kd in kinds:
            if kd in ('R', 'RC') and len(K) > 1000 and len(q) < 3:
                continue          # would list a large part of a big dictionary
            ops.append('%s %s' % (kd, hexs(q)))
    return ops

def id_ops(K):
    n = len(K)
    ids = list(range(min(n, 60))) + [n - 1, n, n + 1, 2 ** 63, 2 ** 64 - 1]
    return ['D %d' % i for i in dict.fromkeys(ids) if i >= 0]

def pick_configs(rng, i):
    v = VARIANTS[i % 4]
    b = (i // 4) % 2
    cont = 'svc'[(i // 8) % 3]
    return v, b, cont

# ---------------------------------------------------------------- component cases
def bv_patterns(rng, tier):
    """(description, bitlist) aimed at word / block / hint-interval boundaries"""
    out = []
    lens = [0, 1, 2, 63, 64, 65, 127, 128, 129, 448, 511, 512, 513, 575, 576, 960, 1023, 1024, 1025, 1087, 1536]
    if tier == 'thorough':
        lens += list(range(0, 1101, 7)) + [4095, 4096, 4097, 8191, 8192]
    for n in lens:
        out.append(('zeros-%d' % n, [0] * n))
        out.append(('ones-%d' % n, [1] * n))
        if n:
            for p in sorted(set([0, n - 1, n // 2, max(0, n - 64), max(0, n - 65), max(0, n - 1 - (n - 1) % 64)])):
                b = [0] * n; b[p] = 1
                out.append(('single-%d@%d' % (n, p), b))
            # ones only in the last word (F8's shape) plus two early ones
            b = [0] * n
            for p in range(max(0, n - 1 - (n - 1) % 64), n):
                b[p] = rng.randint(0, 1)
            if n > 2: b[0] = 1; b[1] = 1
            out.append(('lastword-%d' % n, b))
            for dens in (0.02, 0.5, 0.97):
                out.append(('dens%.2f-%d' % (dens, n), [1 if rng.random() < dens else 0 for _ in range(n)]))
    out.append(('f8-witness', [1, 1] + [0] * 898 + [1] + [0] * 59))
    # around the 1024-ones select hint interval
    for ones in ([1023, 1024, 1025, 2047, 2048, 2049] if tier == 'quick' else [1023, 1024, 1025, 2047, 2048, 2049, 3072, 5000]):
        for dens in (1.0, 0.5, 0.1):
            n = int(ones / dens) + rng.randint(0, 70)
            b = [0] * n
            for p in rng.sample(range(n), min(n, ones)):
                b[p] = 1
            out.append(('hint-%d-d%.1f' % (ones, dens), b))
    if tier == 'thorough':
        for n in (70000, 131072 + 5):
            out.append(('big-%d' % n, [1 if rng.random() < 0.3 else 0 for _ in range(n)]))
    return out

def bv_case(cid, bits, rank=1, sel=1, extra_ops=None):
    ops = ['PUSH ' + ''.join(map(str, bits))] if bits else []
    ops += (extra_ops or []) + ['BUILD', 'ALL']
    return {'id': cid, 'kind': 'bv', 'args': [rank, sel], 'keys': None, 'ops': ops, 'meta': {'bits': len(bits)}}

def bv_builder_cases(rng, count):
    """builder histories: push_back / set_bit(i < size) / resize (grow and shrink)"""
    out = []
    out.append({'id': 'bvh-f14', 'kind': 'bv', 'args': [1, 1], 'keys': None,
                'ops': ['PUSH ' + '1' * 64, 'RESIZE 10', 'PUSH 0', 'BSIZE', 'BGET 10', 'BUILD', 'ALL'], 'meta': {}})
    for c in range(count):
        ops, size = [], 0
        for _ in range(rng.randint(1, 8)):
            r = rng.random()
            if r < 0.45:
                n = rng.choice([1, 3, 63, 64, 65, 130, 300])
                ops.append('PUSH ' + ''.join(rng.choice('01') for _ in range(n))); size += n
            elif r < 0.7 and size:
                ops.append('SET %d %d' % (rng.randrange(size), rng.randint(0, 1)))
            elif r < 0.85:
                n = rng.choice([0, 1, 10, 63, 64, 65, 100, 128, 200, 513])
                ops.append('RESIZE %d' % n); size = n
            elif size:
                ops.append('BGET %d' % rng.randrange(size))
        ops += ['BSIZE', 'BUILD', 'ALL']
        out.append({'id': 'bvh-%d' % c, 'kind': 'bv', 'args': [1, 1], 'keys': None, 'ops': ops, 'meta': {}})
    return out

def words_case(cid, rng, n):
    ops = []
    specials = [0, 1, 2, 3, 0x80, 0xFF, 0x100, 2 ** 63, 2 ** 64 - 1, 2 ** 64 - 2, 0x5555555555555555, 0xAAAAAAAAAAAAAAAA,
                0x8000000000000001, 0x0101010101010101, 0xFF00FF00FF00FF00]
    for x in specials + [rng.getrandbits(64) for _ in range(n)] + [1 << rng.randrange(64) for _ in range(8)] + \
             [rng.getrandbits(64) & rng.getrandbits(64) & rng.getrandbits(64) for _ in range(n // 4)]:
        pc = bin(x).count('1')
        ks = sorted(set([0, pc - 1, pc // 2] + [rng.randrange(pc) for _ in range(2)])) if pc else [0]
        for k in ks:
            if k >= 0:
                ops.append('W %d %d' % (x, k))
    for _ in range(n):
        # 7 fields of 9 bits with the field MSB clear, as select() uses them
        def packed():
            return sum(rng.choice([0, 1, 2, 63, 64, 255, 256, 300, 511 >> 1, rng.randrange(256)]) << (9 * j) for j in range(7))
        ops.append('UL %d %d' % (packed(), packed()))
        ops.append('BC %d' % rng.getrandbits(64))
    for j in range(64):
        ops.append('BP %d' % (1 << j))
    return {'id': cid, 'kind': 'words', 'args': [], 'keys': None, 'ops': ops, 'meta': {}}

BOUNDARY = [0, 1, 2, 127, 128, 129, 255, 256, 257, 2 ** 15 - 1, 2 ** 15, 2 ** 15 + 1, 2 ** 16 - 1, 2 ** 16, 2 ** 16 + 1,
            2 ** 31 - 1, 2 ** 31, 2 ** 31 + 1, 2 ** 32 - 1, 2 ** 32, 2 ** 48, 2 ** 56 - 1, 2 ** 56, 2 ** 63 - 1, 2 ** 63, 2 ** 64 - 2, 2 ** 64 - 1]

def cv_cases(rng, count):
    out = []
    def mk(cid, vs):
        return {'id': cid, 'kind': 'cv', 'args': [], 'keys': None, 'ops': ['V %d' % v for v in vs] + ['BUILD', 'ALL'], 'meta': {'n': len(vs)}}
    out.append(mk('cv-empty', []))
    out.append(mk('cv-f9', [1, 2 ** 64 - 1, 5]))
    out.append(mk('cv-zero', [0, 0, 0]))
    for w in range(1, 65):
        top = (1 << w) - 1
        n = rng.choice([1, 2, 3, 64, 65, 130])
        vs = [rng.randint(0, top) for _ in range(n)]
        vs[rng.randrange(n)] = top if rng.random() < 0.7 else (1 << (w - 1))
        out.append(mk('cv-w%d' % w, vs))
        # the constructor is a template over the container: narrower element types whose values fit
        for ct, cw in (('u8', 8), ('u16', 16), ('u32', 32)):
            if w <= cw and (w > cw // 2 or w in (1, 7, 12)):
                c = mk('cv-w%d-%s' % (w, ct), vs + [top, 1, top])
                c['ops'] = ['CT ' + ct] + c['ops']
                out.append(c)
    for c in range(count):
        w = rng.randint(1, 64)
        out.append(mk('cv-r%d' % c, [rng.getrandbits(w) for _ in range(rng.randint(1, 300))] + [1 << (w - 1)]))
    # a random-access container that is not contiguous (std::deque): more than one node of 64 elements
    for w in (1, 13, 37, 64):
        c = mk('cv-deque-w%d' % w, [rng.getrandbits(w) for _ in range(300)] + [1 << (w - 1)])
        c['ops'] = ['CT deque'] + c['ops']
        out.append(c)
    for w in (1, 13, 33, 64):
        out.append(mk('cv-large-w%d' % w, [rng.getrandbits(w) for _ in range(70000)] + [1 << (w - 1)]))
    return out

def bc_cases(rng, count, tier):
    out = []
    def mk(cid, v, units):
        return {'id': cid, 'kind': 'bc', 'args': [v], 'keys': None,
                'ops': ['U %d %d %d' % u for u in units] + ['BUILD', 'ALL'], 'meta': {'n': len(units)}}
    for v in VARIANTS:
        out.append(mk('bc%d-empty' % v, v, []))
        out.append(mk('bc%d-noleaf' % v, v, [(5, 0, 0), (300, 1, 0), (70000, 7, 0)]))
        out.append(mk('bc%d-one' % v, v, [(0, 0, 1)]))
        # boundary values: stored value is base^i / check^i, so choose base = x ^ i
        units = []
        for i, x in enumerate(BOUNDARY):
            y = BOUNDARY[(i * 7 + 3) % len(BOUNDARY)]
            units.append((x ^ i, y ^ i, 0))
        for i, x in enumerate(BOUNDARY):
            j = len(BOUNDARY) + i
            units.append((x, rng.choice(BOUNDARY) ^ j, 1))      # leaves store the raw link
        out.append(mk('bc%d-boundary' % v, v, units))
        # saturate a pointer block: 128 (or more) consecutive overflowing entries for variant 7
        nrun = {7: 70, 8: 70, 15: 70, 16: 70}[v] if tier == 'quick' else {7: 200, 8: 200, 15: 20000, 16: 20000}[v]
        big = 2 ** 20
        units = [((big + rng.randrange(1000)) ^ i, (big + i) ^ i, 0) for i in range(nrun)]
        units += [((3) ^ i, i, rng.randint(0, 1)) for i in range(nrun, nrun + 70)]
        out.append(mk('bc%d-saturate' % v, v, units))
        # long mixed-magnitude vector: several blocks at every DAC level, large values before and after each block start
        nbig = 60000 if tier == 'quick' else 200000
        units = []
        for i in range(nbig):
            lf = 1 if rng.random() < 0.1 else 0
            mag = rng.choice([7, 8, 15, 16, 16, 31, 32, 33, 48, 63, 64])
            b = rng.getrandbits(mag) | (1 << (mag - 1))
            ch = i if rng.random() < 0.05 else ((rng.getrandbits(rng.choice([7, 15, 16, 31, 32, 64])) | 1) ^ i)
            units.append((b if lf else b ^ i, ch, lf))
        out.append(mk('bc%d-large-mixed' % v, v, units))
        for c in range(count):
            n = rng.choice([1, 2, 63, 64, 65, 130, 300])
            dens = rng.choice([0.0, 0.05, 0.5, 1.0])
            units = []
            for i in range(n):
                lf = 1 if rng.random() < dens else 0
                mag = rng.choice([7, 8, 15, 16, 31, 32, 56, 63, 64])
                b = rng.getrandbits(mag) if rng.random() < 0.8 else rng.choice(BOUNDARY)
                ch = i if rng.random() < 0.2 else (rng.getrandbits(rng.choice([7, 8, 15, 16, 31, 32, 64])) ^ i)
                units.append((b if lf else b ^ i, ch, lf))
            out.append(mk('bc%d-r%d' % (v, c), v, units))
    return out

def tail_cases(rng, count):
    out = []
    def mk(cid, bin_, sufs, probes):
        ops = ['S %s %d' % (hexs(s), np) for s, np in sufs] + ['BUILD'] + probes
        return {'id': cid, 'kind': 'tail', 'args': [int(bin_)], 'keys': None, 'ops': ops, 'meta': {'sufs': sufs}}
    fixed = [
        ('chain', [b'a', b'ba', b'cba', b'dcba', b'xcba']),
        ('dups', [b'ing', b'ing', b'ng', b'g', b'ing']),
        ('f5', [b'xyz', b'q']),
        ('high', [b'\xff', b'a\xff', b'\x80\xff', b'\x7f', b'\xff\x7f']),
        ('one', [b'z']),
        ('none', []),
        ('long', [bytes(range(97, 123)) * 2, b'0123456789abcdefghijklmnopqrstuvwxyz', b'x' * 40, b'ab' * 17 + b'c']),
        ('alias', [b'ab', b'abcb', b'abc', b'b', b'cb', b'abcbx']),
    ]
    def win(c):      # the same case with every suffix handed over as a window of one shared buffer (views alias)
        c2 = dict(c); c2['id'] = c['id'] + '-win'; c2['ops'] = ['WIN'] + c['ops']; return c2
    for name, sufs in fixed:
        for bin_ in (0, 1):
            out.append(mk('tail-%s-%d' % (name, bin_), bin_, [(s, 10 + i) for i, s in enumerate(sufs)], None or []))
            out.append(win(out[-1]))
    out.append(mk('tail-nulbytes-1', 1, [(b'a\x00b', 1), (b'\x00', 2), (b'\x00\x00b', 3), (b'b', 4), (b'\x00b', 5)], []))
    out.append(mk('tail-emptysuffix', 0, [(b'', 1)], []))
    for c in range(count):
        bin_ = rng.randint(0, 1)
        a = rng.choice([b'ab', b'abc', bytes(range(97, 123)), bytes(range(1, 256))] + ([bytes(range(256)), b'\x00a'] if bin_ else []))
        base = [rand_word(rng, a, 1, 8) for _ in range(rng.randint(1, 6))]
        sufs = []
        for i in range(rng.randint(1, 25)):
            w = rng.choice(base)
            r = rng.random()
            if r < 0.4: s = w[rng.randrange(len(w)):]
            elif r < 0.6: s = rand_word(rng, a, 1, 3) + w
            else: s = rand_word(rng, a, 1, 6)
            sufs.append((s, 100 + i))
        out.append(mk('tail-r%d' % c, bin_, sufs, []))
        if c % 3 == 0: out.append(win(out[-1]))
    return out

def tail_probes(sufs, pos, rng, bin_):
    """probe ops once the positions are known (second phase; see check)"""
    ops = []
    allsuf = [s for s, _ in sufs]
    for (s, np) in sufs:
        tp = pos[np]
        cand = [s, s[:-1], s + b'a', s + b'\x00', s[:-1] + bytes([(s[-1] + 1) % 256]), b'', s + rng.choice(allsuf), s * 2,
                s[:len(s) // 2]]
        for q in cand + paired_deviations(s, rng):
            ops.append('M %s %d' % (hexs(q), tp)); ops.append('PM %s %d' % (hexs(q), tp))
        ops.append('DEC %d' % tp)
    for q in [b'', b'\x00', b'a', b'\x00' + (allsuf[0] if allsuf else b'x')]:
        ops.append('M %s 0' % hexs(q)); ops.append('PM %s 0' % hexs(q))
    ops.append('DEC 0')
    return ops

# ---------------------------------------------------------------- malformed key lists (C08)
def malformed_lists(rng, tier):
    out = [[], [b'a', b'a'], [b'a', b'a', b'a'], [b'', b''], [b'b', b'a'], [b'a\x00b', b'a'], [b'a', b'a\x00', b'a'],
           [b'ab', b'a'], [b'a', b'ab', b'ab'], [b'a', b'ab', b'aa'], [b'', b'a', b''], [b'\xff', b'\x7f'], [b'\x80', b'a'],
           [b'abc', b'abd', b'abc'], [b'x' * 50, b'x' * 50], [b'x' * 50 + b'b', b'x' * 50 + b'a']]
    S = sorted(all_strings([0, 97, 255], 2))
    lim = 3 if tier == 'quick' else 4
    allists = []
    for n in range(2, lim + 1):
        for t in itertools.product(S, repeat=n):
            L = list(t)
            if not all(L[i] < L[i + 1] for i in range(n - 1)):
                allists.append(L)
    if tier == 'quick':
        allists = rng.sample(allists, 400)
    out += allists
    # disorder at first / middle / last position of long lists, duplicates with multiplicity >= 3
    a = bytes(range(97, 123))
    for _ in range(20 if tier == 'quick' else 200):
        K = sorted(set(rand_word(rng, a, 1, 6) for _ in range(rng.choice([5, 50, 400]))))
        if len(K) < 3: continue
        pos = rng.choice([0, len(K) // 2, len(K) - 2])
        L = list(K)
        r = rng.random()
        if r < 0.4: L[pos], L[pos + 1] = L[pos + 1], L[pos]
        elif r < 0.8: L.insert(pos, L[pos]);
        else: L.insert(pos, L[pos]); L.insert(pos, L[pos])
        out.append(L)
    # non-adjacent disorder inside long runs of keys that share a prefix: one foreign / displaced key in the middle
    for n in ([40, 100] if tier == 'quick' else [18, 19, 33, 40, 100, 300, 1000]):
        for width in (2, 3):
            base = [b'item' + str(i).zfill(width).encode() for i in range(n)] if 10 ** width >= n else None
            if base is None: continue
            for _ in range(6 if tier == 'quick' else 20):
                L = list(base); i = rng.randrange(1, n - 1)
                kind = rng.choice(['foreign-first-byte', 'foreign-last-byte', 'move-far', 'swap-far', 'dup-far', 'shorten'])
                if kind == 'foreign-first-byte': L[i] = bytes([L[i][0] + 1]) + L[i][1:]
                elif kind == 'foreign-last-byte': L[i] = L[i][:-1] + bytes([rng.choice([0x00, 0x2f, 0x3a, 0xff])])
                elif kind == 'move-far': k = L.pop(i); L.insert(rng.randrange(len(L) + 1), k)
                elif kind == 'swap-far': j = rng.randrange(n); L[i], L[j] = L[j], L[i]
                elif kind == 'dup-far': L.insert(rng.randrange(len(L) + 1), L[i])
                else: L[i] = L[i][:rng.randrange(len(L[i]))]
                if not all(L[x] < L[x + 1] for x in range(len(L) - 1)):
                    out.append(L)
    # a node that already has every possible label (all 256, or all but a few) before the disorder / the repetition
    full = [bytes([b]) for b in range(256)]
    for pre in (b'', b'p', b'pq'):
        base = [pre + k for k in full]
        for tail in ([b'A'], [b'Ax'], [b'\xff'], [b'\xff\x00', b'\xff\x00'], [b'\x00'], [b'']):
            out.append(base + [pre + t for t in tail])
        out.append([pre + k for k in full[:255]] + [pre + b'\x10'])
        out.append([pre + k + b'z' for k in full] + [pre + b'Mz'])
    return out
