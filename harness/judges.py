"""Spec judges for component kinds and special ops: given a case block and the implementation's lines,
return a list of (property_id, message) describing where the implementation violates the property text.
Independent of the Coq model (used for the failing-input search and for classifying disagreements)."""
import spec
from spec import hexs, unhex

def bad(l):
    return len(l) > 1 and (l[1] == 'exc' or l[1].startswith(('other', 'fault')))

def abnormal(lines):
    for l in lines:
        if l.startswith(('crash', 'sanitizer', 'abort', 'timeout')):
            return l
    return None

def judge_bv(hdr, ops, lines):
    V = []
    ab = abnormal(lines)
    if ab:
        return [('C09', 'bit_vector case ended with %s' % ab)]
    rank, sel = hdr[3] == '1', hdr[4] == '1'
    bits = []
    it = iter(lines)
    for op in ops:
        o = op.split()
        if o[0] == 'PUSH':
            bits.extend(int(c) for c in o[1])
        elif o[0] == 'SET':
            bits[int(o[1])] = int(o[2])
        elif o[0] == 'RESIZE':
            n = int(o[1]); bits = bits[:n] + [0] * (n - len(bits))
        elif o[0] == 'BGET':
            l = next(it, '').split()
            if l[:1] != ['bget'] or l[1] != str(bits[int(o[1])]):
                V.append(('C09', 'builder[%s] = %s expected %d after %s' % (o[1], l[1:], bits[int(o[1])], ops[:8])))
        elif o[0] == 'BSIZE':
            l = next(it, '').split()
            if l != ['bsize', str(len(bits))]:
                V.append(('C09', 'builder size %s expected %d' % (l[1:], len(bits))))
        elif o[0] == 'BUILD':
            next(it, '')
        elif o[0] == 'ALL':
            g, r, s = spec.bv_expected(bits)
            lg = next(it, '').split(); lr = next(it, '').split(); ls = next(it, '').split()
            eg = g if g else '-'
            if lg != ['allget', eg]:
                V.append(('C09', 'access differs from the bit sequence (len %d)' % len(bits)))
            if rank:
                got = lr[1].split(',') if len(lr) > 1 else []
                if got != [str(x) for x in r]:
                    idx = next((i for i in range(min(len(got), len(r))) if got[i] != str(r[i])), None)
                    V.append(('C09', 'rank(%s) = %s expected %s (len %d)' % (idx, got[idx] if idx is not None else '?', r[idx] if idx is not None else '?', len(bits))))
            if rank and sel:
                got = [] if len(ls) < 2 or ls[1] == '-' else ls[1].split(',')
                if got != [str(x) for x in s]:
                    idx = next((i for i in range(min(len(got), len(s))) if got[i] != str(s[i])), None)
                    V.append(('C09', 'select(%s) = %s expected %s (len %d, ones %d)' % (idx, got[idx] if idx is not None else got[:3], s[idx] if idx is not None else s[:3], len(bits), len(s))))
    return V

def judge_words(hdr, ops, lines):
    V = []
    ab = abnormal(lines)
    if ab:
        return [('C09', 'words case ended with %s' % ab)]
    for op, ln in zip(ops, lines):
        o, l = op.split(), ln.split()
        if o[0] == 'W':
            x, k = int(o[1]), int(o[2])
            pc = bin(x).count('1'); ms = x.bit_length() - 1 if x else 0
            pos = [i for i in range(64) if x >> i & 1]
            exp = ['w', str(pc), str(ms), str(pos[k]) if k < pc else '-']
            if l != exp:
                V.append(('C09', 'word %#x k=%d: %s expected %s' % (x, k, l, exp)))
        elif o[0] == 'UL':
            x, y = int(o[1]), int(o[2])
            e = sum((1 << (9 * j)) for j in range(7) if (x >> 9 * j & 511) <= (y >> 9 * j & 511))
            if l != ['ul', str(e)]:
                V.append(('C09', 'uleq_step_9(%#x,%#x) = %s expected %d' % (x, y, l[1:], e)))
        elif o[0] == 'BC':
            x = int(o[1])
            e = sum(bin(x >> 8 * j & 255).count('1') << (8 * j) for j in range(8))
            if l != ['bcnt', str(e)]:
                V.append(('C09', 'byte_counts(%#x) = %s expected %d' % (x, l[1:], e)))
        elif o[0] == 'BP':
            x = int(o[1])
            if l != ['bp', str(x.bit_length() - 1)]:
                V.append(('C09', 'bit_position(%#x) = %s' % (x, l[1:])))
    return V

def judge_cv(hdr, ops, lines):
    ab = abnormal(lines)
    if ab:
        return [('C10', 'compact_vector case ended with %s' % ab)]
    vs = [int(o.split()[1]) for o in ops if o.startswith('V ')]
    V = []
    if not vs:
        return V   # empty input: the exception is the documented behaviour
    if not lines or lines[0].split()[:1] != ['cv'] or bad(lines[0].split()):
        return [('C10', 'compact_vector(%s...) build -> %s' % (vs[:4], lines[:1]))]
    for l in lines[1:]:
        f = l.split()
        if f[0] == 'all' and f[1].split(',') != [str(v) for v in vs]:
            got = f[1].split(',')
            idx = next((i for i in range(min(len(got), len(vs))) if got[i] != str(vs[i])), None)
            V.append(('C10', 'compact_vector[%s] = %s expected %s (width %d)' % (idx, got[idx] if idx is not None else '?', vs[idx] if idx is not None else '?', max(vs).bit_length())))
    return V

def judge_bc(hdr, ops, lines):
    ab = abnormal(lines)
    if ab:
        return [('C10', 'bc_vector case ended with %s' % ab)]
    units = [tuple(map(int, o.split()[1:4])) for o in ops if o.startswith('U ')]
    V = []
    if not lines or lines[0].split()[:1] != ['bc'] or bad(lines[0].split()):
        return [('C10', 'bc_vector_%s build over %d units (%d leaves) -> %s' % (hdr[3], len(units), sum(u[2] for u in units), lines[:1]))]
    n = len(units)
    frees = sum(1 for i, u in enumerate(units) if u[1] == i)
    exp = {
        'counts': '%d %d %d %d' % (n, frees, n - frees, sum(u[2] for u in units)),
        'allleaf': ''.join(str(u[2]) for u in units) or '-',
        'allcheck': ','.join(str(u[1]) for u in units) or '-',
        'allbase': ','.join('-' if u[2] else str(u[0]) for u in units) or '-',
        'alllink': ','.join(str(u[0]) if u[2] else '-' for u in units) or '-',
    }
    for l in lines[1:]:
        k, _, rest = l.partition(' ')
        if k in exp and rest != exp[k]:
            if k.startswith('all') and k != 'allleaf':
                g, e = rest.split(','), exp[k].split(',')
                idx = next((i for i in range(min(len(g), len(e))) if g[i] != e[i]), None)
                V.append(('C10', 'bc_vector_%s %s[%s] = %s expected %s' % (hdr[3], k[3:], idx, g[idx] if idx is not None else '?', e[idx] if idx is not None else '?')))
            else:
                V.append(('C10', 'bc_vector_%s %s = %s expected %s' % (hdr[3], k, rest[:80], exp[k][:80])))
    return V

def judge_tail(hdr, ops, lines, sufs_by_tpos=None):
    """sufs_by_tpos: dict tpos -> suffix bytes (phase 2); probes are judged against it"""
    ab = abnormal(lines)
    if ab:
        return [('C11', 'tail_vector case ended with %s' % ab)]
    V = []
    if sufs_by_tpos is None:
        return V
    outs = [l for l in lines if l.split()[0] in ('m', 'pm', 'dec')]
    probes = [o for o in ops if o.split()[0] in ('M', 'PM', 'DEC')]
    for op, ln in zip(probes, outs):
        o, l = op.split(), ln.split()
        tp = int(o[-1])
        s = sufs_by_tpos.get(tp)
        if s is None:
            continue
        if o[0] == 'DEC':
            if bad(l) or unhex(l[1]) != s:
                V.append(('C11', 'decode(tpos %d) = %s expected %s' % (tp, l[1:], hexs(s))))
        else:
            q = unhex(o[1])
            m, pm = spec.tail_probe_expected(s, q)
            if o[0] == 'M' and l != ['m', str(m)]:
                V.append(('C11', 'match(%s) at the position of %s = %s expected %d' % (hexs(q), hexs(s), l[1:], m)))
            if o[0] == 'PM' and l != ['pm', '-' if pm is None else str(pm)]:
                V.append(('C11', 'prefix_match(%s) at the position of %s = %s expected %s' % (hexs(q), hexs(s), l[1:], pm)))
    return V

def judge_trie(hdr, keys, ops, lines):
    """generic judgement of a trie case against the spec (C01-C05, C17) + outcome checks"""
    V = []
    req_bin = hdr[4] == '1'
    valid = spec.valid_keys(keys)
    if not lines:
        return [('C07', 'no output')]
    first = lines[0]
    if not valid:
        if first != 'build exc':
            V.append(('C08', 'invalid key list (%d keys) -> %s' % (len(keys), first)))
        return V
    if first != 'build ok':
        V.append(('C01', 'construction from a valid key list (%d keys, first %s) -> %s' % (len(keys), hexs(keys[0]), first)))
        return V
    body = lines[1:]
    ab = abnormal(body)
    if ab:
        k = body.index(ab)
        V.append(('C07', 'case ended with "%s" at op #%d (%s)' % (ab, k, ops[k] if k < len(ops) else '?')))
        body = body[:k]
    J = spec.TrieJudge(keys, req_bin)
    # keep only ops that produce exactly one line, in order; ops with 2 lines (FILE) handled
    pairs_ops, pairs_lines = [], []
    li = 0
    for op in ops:
        if li >= len(body):
            break
        nl = 2 if op == 'FILE' else 1
        if op.split()[0] in ('L', 'D', 'DI', 'P', 'PC', 'R', 'RC', 'E', 'EC', 'STATS'):
            pairs_ops.append(op); pairs_lines.append(body[li])
        li += nl
    V += J.judge(pairs_ops, pairs_lines)
    return V
