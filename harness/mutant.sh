#!/bin/sh
# mutant.sh <property-id> <out-dir-with patch.diff demo.cpp meta.json> [check ids...]
# 1. confirms in a fresh scratch worktree that the patch applies, the suite still passes (sequential ctest),
#    the demo fails with the change and passes without it; 2. applies the patch to /repo, runs the named checks
#    (default: the property's own), undoes it; 3. stores everything under /verif/seeded/<name>/.
set -u
PID="$1"; OUT="$2"; shift 2
CHECKS="${*:-$PID}"
NAME="${MUT_NAME:-$PID}"
W=/tmp/mutverify.$NAME
DST=/verif/seeded/$NAME
rm -rf "$W"; git -C /repo worktree prune; git -C /repo worktree add -q --detach "$W" HEAD || exit 2
mkdir -p "$DST"; cp "$OUT/patch.diff" "$OUT/demo.cpp" "$DST/" 2>/dev/null; [ -f "$OUT/demo.sh" ] && cp "$OUT/demo.sh" "$DST/"; [ -f "$OUT/meta.json" ] && cp "$OUT/meta.json" "$DST/meta.agent.json"
R="$DST/confirm.log"; : > "$R"
DEMOFLAGS="${DEMO_FLAGS:--O2}"
if [ -f "$OUT/demo.sh" ]; then bash "$OUT/demo.sh" "$W" >>"$R" 2>&1; P=$?
else g++ -std=c++17 $DEMOFLAGS -pthread -I"$W/include" "$OUT/demo.cpp" -o "$W.demo_pristine" >>"$R" 2>&1; "$W.demo_pristine" >>"$R" 2>&1; P=$?; fi
( cd "$W" && git apply "$OUT/patch.diff" ) >>"$R" 2>&1 || { echo "patch does not apply" | tee -a "$R"; }
if [ -f "$OUT/demo.sh" ]; then bash "$OUT/demo.sh" "$W" >>"$R" 2>&1; M=$?
else g++ -std=c++17 $DEMOFLAGS -pthread -I"$W/include" "$OUT/demo.cpp" -o "$W.demo_mut" >>"$R" 2>&1; "$W.demo_mut" >>"$R" 2>&1; M=$?; fi
( cmake -G Ninja -S "$W" -B "$W/_build" >/dev/null 2>&1 && cmake --build "$W/_build" >/dev/null 2>&1 && ctest --test-dir "$W/_build" --timeout 900 2>&1 | tail -4 ) >>"$R" 2>&1
SUITE=$(grep -c "100% tests passed" "$R")
echo "demo_pristine_exit=$P demo_mutant_exit=$M suite_pass=$SUITE" | tee -a "$R"
rm -rf "$W/_build" "$W.demo_pristine" "$W.demo_mut"; git -C /repo worktree remove --force "$W"
# run the checks against /repo with the patch applied
RES=""
if git -C /repo apply "$OUT/patch.diff"; then
  for c in $CHECKS; do
    ( cd /verif && ./check "$c" ${MUT_FULL:+} $( [ -n "${MUT_FULL:-}" ] || echo --no-proof ) > "$DST/check_$c.log" 2>&1 ); rc=$?
    line=$(grep -m1 "^VIOLATION" "$DST/check_$c.log" | cut -c1-160)
    RES="$RES $c:rc=$rc"
    echo "check $c rc=$rc $line" | tee -a "$R"
    [ -f /verif/work/replay/$c-violation.json ] && [ $rc = 1 ] && cp /verif/work/replay/$c-*.json "$DST/" 2>/dev/null
  done
  git -C /repo checkout -- .
else
  echo "cannot apply to /repo" | tee -a "$R"
fi
echo "RESULT $NAME demo_pristine=$P demo_mutant=$M suite=$SUITE checks:$RES"
