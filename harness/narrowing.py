"""Integer-width tie: the model computes every counter and index in 64-bit words (Base.add64 ...). This module lists
the implicit integer conversions g++ reports (-Wconversion -Wsign-conversion) inside /repo/include when every public
template is instantiated, and compares them with the committed baseline narrowing.lock.json. A NEW implicit conversion
in a header means the source no longer computes where the model assumes it does (e.g. `auto pos = 0;` making a
position an int): a broken tie for the properties anchored in that file -- whether or not a failing input of
reachable size exists."""
import json, os, re, subprocess, sys
import core

TU = r'''
#include <xcdat.hpp>
#include <vector>
#include <string>
#include <string_view>
template class xcdat::trie<xcdat::bc_vector_7>;
template class xcdat::trie<xcdat::bc_vector_8>;
template class xcdat::trie<xcdat::bc_vector_15>;
template class xcdat::trie<xcdat::bc_vector_16>;
template <class T, class C> void use(const C& k) {
  T t(k, true); std::string s; t.decode(0, s); t.lookup("a"); t.prefix_search("a", [](std::uint64_t, std::string_view) {});
  t.predictive_search("a", [](std::uint64_t, std::string_view) {}); t.enumerate([](std::uint64_t, std::string_view) {});
  xcdat::save(t, "x"); (void)xcdat::load<T>("x"); (void)xcdat::mmap<T>(nullptr); (void)xcdat::memory_in_bytes(t);
}
void f() {
  std::vector<std::string> a{"a"}; std::vector<std::string_view> b{"a"}; std::vector<std::vector<char>> c{{'a'}};
  use<xcdat::trie_7_type>(a); use<xcdat::trie_8_type>(b); use<xcdat::trie_15_type>(c); use<xcdat::trie_16_type>(a);
  xcdat::tail_vector::builder tb; tb.set_suffix("a", 1); tb.complete(false, [](std::uint64_t, std::uint64_t) {});
  xcdat::tail_vector tv(std::move(tb)); (void)tv.match("a", 1); (void)tv.prefix_match("a", 1);
  xcdat::bit_vector::builder bb(10); bb.push_back(true); bb.resize(3); xcdat::bit_vector bv(bb, true, true); (void)bv.rank(1); (void)bv.select(0);
  std::vector<std::uint64_t> v{1, 2}; xcdat::compact_vector cv(v); (void)cv[0];
  (void)xcdat::get_type_id("x");
}
'''

def current():
    core.ensure_dirs()
    src = os.path.join(core.WORK, 'run', 'narrowing_tu.cpp')
    open(src, 'w').write(TU)
    inc = os.path.join(core.REPO, 'include')
    p = subprocess.run(['g++', '-std=c++17', '-fsyntax-only', '-Wconversion', '-Wsign-conversion', '-I', inc, src],
                       stdout=subprocess.PIPE, stderr=subprocess.STDOUT, text=True, timeout=600)
    out = set()
    lines = p.stdout.splitlines()
    for i, l in enumerate(lines):
        m = re.match(r'(%s/\S+?):(\d+):(\d+): warning: (.*)$' % re.escape(inc), l)
        if not m:
            continue
        f = os.path.relpath(m.group(1), core.REPO)
        try:
            text = open(m.group(1)).read().splitlines()[int(m.group(2)) - 1].strip()
        except Exception:
            text = '?'
        msg = re.sub(r"\{aka '[^']*'\}\s*", '', m.group(4))
        out.add((f, text, msg))
    return sorted(out), p.returncode

def new_conversions():
    """list of (file, source line, message) not in the baseline"""
    lock = os.path.join(core.VERIF, 'narrowing.lock.json')
    base = set(tuple(x) for x in json.load(open(lock))) if os.path.exists(lock) else set()
    cur, rc = current()
    return [c for c in cur if tuple(c) not in base], len(cur)

if __name__ == '__main__':
    cur, rc = current()
    if len(sys.argv) > 1 and sys.argv[1] == '--write-baseline':
        json.dump(cur, open(os.path.join(core.VERIF, 'narrowing.lock.json'), 'w'), indent=1)
        print('baseline written:', len(cur), 'implicit conversions')
    else:
        for c in new_conversions()[0]:
            print('NEW', c)
