"""Integer-width tie: the model computes every counter and index in 64-bit words (Base.add64 ...). This module lists
the implicit integer conversions g++ reports (-Wconversion -Wsign-conversion) inside /repo/include when every public
template is instantiated, and compares them with the committed baseline narrowing.lock.json. A NEW implicit conversion
in a header means the source no longer computes where the model assumes it does (e.g. `auto pos = 0;` making a
position an int): a broken tie for the properties anchored in that file -- whether or not a failing input of
reachable size exists."""
import json, os, re, subprocess, sys
import core

TU = r'''
#include <xcdat.hpp>
#include <vector>
#include <string>
#include <string_view>
template class xcdat::trie<xcdat::bc_vector_7>;
template class xcdat::trie<xcdat::bc_vector_8>;
template class xcdat::trie<xcdat::bc_vector_15>;
template class xcdat::trie<xcdat::bc_vector_16>;
template <class T, class C> void use(const C& k) {
  T t(k, true); std::string s; t.decode(0, s); t.lookup("a"); t.prefix_search("a", [](std::uint64_t, std::string_view) {});
  t.predictive_search("a", [](std::uint64_t, std::string_view) {}); t.enumerate([](std::uint64_t, std::string_view) {});
  xcdat::save(t, "x"); (void)xcdat::load<T>("x"); (void)xcdat::mmap<T>(nullptr); (void)xcdat::memory_in_bytes(t);
}
void f() {
  std::vector<std::string> a{"a"}; std::vector<std::string_view> b{"a"}; std::vector<std::vector<char>> c{{'a'}};
  use<xcdat::trie_7_type>(a); use<xcdat::trie_8_type>(b); use<xcdat::trie_15_type>(c); use<xcdat::trie_16_type>(a);
  xcdat::tail_vector::builder tb; tb.set_suffix("a", 1); tb.complete(false, [](std::uint64_t, std::uint64_t) {});
  xcdat::tail_vector tv(std::move(tb)); (void)tv.match("a", 1); (void)tv.prefix_match("a", 1);
  xcdat::bit_vector::builder bb(10); bb.push_back(true); bb.resize(3); xcdat::bit_vector bv(bb, true, true); (void)bv.rank(1); (void)bv.select(0);
  std::vector<std::uint64_t> v{1, 2}; xcdat::compact_vector cv(v); (void)cv[0];
  (void)xcdat::get_type_id("x");
}
'''

def current():
    core.ensure_dirs()
    src = os.path.join(core.WORK, 'run', 'narrowing_tu.cpp')
    open(src, 'w').write(TU)
    inc = os.path.join(core.REPO, 'include')
    p = subprocess.run(['g++', '-std=c++17', '-fsyntax-only', '-Wconversion', '-Wsign-conversion', '-I', inc, src],
                       stdout=subprocess.PIPE, stderr=subprocess.STDOUT, text=True, timeout=600)
    out = set()
    lines = p.stdout.splitlines()
    for i, l in enumerate(lines):
        m = re.match(r'(%s/\S+?):(\d+):(\d+): warning: (.*)$' % re.escape(inc), l)
        if not m:
            continue
        f = os.path.relpath(m.group(1), core.REPO)
        try:
            text = open(m.group(1)).read().splitlines()[int(m.group(2)) - 1].strip()
        except Exception:
            text = '?'
        # canonical types: `'X' {aka 'Y'}` -> `'Y'`, so that a typedef spelled differently is the same kind
        msg = re.sub(r"[‘'][^‘’']*[’'] \{aka [‘']([^‘’']*)[’']\}", r"'\1'", m.group(4))
        msg = msg.replace('‘', "'").replace('’', "'")
        out.add((f, text, msg))
    return sorted(out), p.returncode

NARROW = re.compile(r'(?<![\w:<,])(?:const\s+)?((?:std::)?u?int(?:8|16|32)_t|unsigned(?:\s+(?:int|short|char))?|int|short|float)\s+(?:\w+::)*\w+\s*(?:=|;|\{|:\s*\d+|\)|,)')

def narrow_declarations():
    """(file | declared type) -> number of variables / members / parameters / bit-fields declared with an integer type
    narrower than 64 bits in /repo/include (casts and template arguments are not declarations and are not counted)"""
    import glob
    d = {}
    inc = os.path.join(core.REPO, 'include')
    for f in sorted(glob.glob(os.path.join(inc, '**', '*.hpp'), recursive=True)):
        src = open(f).read()
        src = re.sub(r'//[^\n]*', '', src); src = re.sub(r'/\*.*?\*/', '', src, flags=re.S)
        for m in NARROW.finditer(src):
            k = os.path.relpath(f, core.REPO) + ' | declares ' + ' '.join(m.group(1).split())
            d[k] = d.get(k, 0) + 1
        for m in re.finditer(r':\s*(\d+)\s*;', src):          # bit-fields
            if int(m.group(1)) < 64:
                k = os.path.relpath(f, core.REPO) + ' | declares bit-field'
                d[k] = d.get(k, 0) + 1
    return d

def counts(cur):
    """(file, message) -> number of distinct source lines carrying that implicit conversion.  Comparing counts rather
    than line texts keeps a harmless rename or re-indentation of an already-known conversion from raising an alarm."""
    d = {}
    for f, text, msg in cur:
        d.setdefault(f + ' | ' + msg, set()).add(text)
    return d

def new_conversions():
    """list of (file, source line(s), message) for every (file, message) kind that occurs on more source lines than in
    the baseline (a kind absent from the baseline counts as 0)"""
    lock = os.path.join(core.VERIF, 'narrowing.lock.json')
    base = json.load(open(lock)) if os.path.exists(lock) else {}
    cur, rc = current()
    out = []
    for k, texts in sorted(counts(cur).items()):
        if len(texts) > base.get(k, 0):
            f, msg = k.split(' | ', 1)
            out.append((f, ' ;; '.join(sorted(texts))[:300], msg))
    for k, n in sorted(narrow_declarations().items()):
        if n > base.get(k, 0):
            f, msg = k.split(' | ', 1)
            out.append((f, '%d declaration(s), baseline %d' % (n, base.get(k, 0)), msg + ' (an integer narrower than 64 bits)'))
    return out, len(cur)

if __name__ == '__main__':
    cur, rc = current()
    if len(sys.argv) > 1 and sys.argv[1] == '--write-baseline':
        base = {k: len(v) for k, v in sorted(counts(cur).items())}
        base.update(narrow_declarations())
        json.dump(base, open(os.path.join(core.VERIF, 'narrowing.lock.json'), 'w'), indent=1)
        print('baseline written:', len(cur), 'implicit conversions of', len(counts(cur)), 'kinds')
    else:
        for c in new_conversions()[0]:
            print('NEW', c)
