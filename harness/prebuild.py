#!/usr/bin/env python3
"""setup helper: build every driver configuration and the tools once (they are rebuilt on demand whenever
/repo's sources, the driver or the flags change)."""
import sys, os
sys.path.insert(0, os.path.dirname(os.path.abspath(__file__)))
import core, props
core.build_drivers(list(core.CONFIGS))
props.build_tools()
print('prebuilt', sorted(core.CONFIGS))
