"""Per-property check definitions: generators, required configurations, judgement and decision."""
import hashlib, json, os, random, re, sys, time, subprocess
import core, gen, judges, spec
from gen import hexs

VERIF = core.VERIF

def anchor_files(pid):
    for l in open(os.path.join(VERIF, 'properties.jsonl')):
        p = json.loads(l)
        if p['id'] == pid:
            return p['anchors']['files']
    return []

def source_drift():
    """files under /repo/include and /repo/tools whose content differs from anchors.lock.json (the state the model was
    written against).  A drift is never a violation by itself: it switches the scale pools on (as in the thorough tier)"""
    import hashlib, glob
    lock = os.path.join(VERIF, 'anchors.lock.json')
    if not os.path.exists(lock):
        return []
    want = json.load(open(lock))
    out = []
    for rel, h in want.items():
        p = os.path.join(core.REPO, rel)
        cur = hashlib.sha256(open(p, 'rb').read()).hexdigest() if os.path.exists(p) else None
        if cur != h:
            out.append(rel)
    return out

class Ctx:
    def __init__(self, pid, tier, seed):
        self.pid, self.tier, self.seed = pid, tier, seed
        self.drift_files = source_drift()
        self.scale_on = (tier == 'thorough') or bool(self.drift_files)
        self.rng = random.Random(seed * 1000003 + int(pid[1:]))
        self.violations = []      # concrete failing inputs: {prop,msg,case,block,impl,config}
        self.broken_ties = []     # {what, case, block, impl, model}
        self.evaluations = 0
        self.nontrivial = set()
        self.samples = []
        self.dist = {}
        self.notes = []
        self.proof = None
        self.model_ok = True
        self.wall = 0.0
        self.search_mode = False
        self.configs_used = set()
        self.drift = 0

    def count(self, key, n=1):
        self.dist[key] = self.dist.get(key, 0) + n

    def scale(self, quick, thorough):
        n = thorough if self.tier == 'thorough' else quick
        return n * 3 if self.search_mode else n

# ------------------------------------------------------------------ generic correspondence
def nontrivial_of(cid, block, impl_lines):
    """distinct (case, op) pairs whose implementation answer is not the trivial one"""
    out = set()
    hdr, keys, ops = core.ops_of_block(block)
    kh = hashlib.sha1(repr((hdr[2:], keys)).encode()).hexdigest()[:12]
    body = impl_lines[1:] if hdr[2] in ('trie', 'conc') else impl_lines
    if hdr[2] in ('trie', 'conc') and impl_lines and impl_lines[0] != 'build ok':
        out.add((kh, impl_lines[0]))
    for l in body:
        f = l.split()
        if not f:
            continue
        triv = (len(f) == 1) or (len(f) == 2 and f[1] in ('-', '0', 'ok')) or f[0] in ('use', 'ip', 'ir', 'ie', 'idp', 'idr', 'mv')
        if not triv:
            out.add((kh, hashlib.sha1(l.encode()).hexdigest()[:12]))
    return out

def correspond(ctx, cases, cfgs, judge, tag, model=True, model_env=None, oracle_cfg=None, per_cfg_model_env=None):
    """run the cases on every configuration and on the model; judge and compare.
    judge(hdr, keys, ops, lines, case) -> [(prop,msg)]"""
    for c in cases:       # the code-table oracle: every trie case dumps its file first
        if c['kind'] == 'trie' and (not c['ops'] or c['ops'][0] != 'FILE'):
            c['ops'] = ['FILE'] + list(c['ops'])
    text = ''.join(gen.render(c) for c in cases)
    blocks = core.split_cases(text)
    bmap = dict(blocks)
    cmap = {c['id']: c for c in cases}
    impl = {}
    if ctx.search_mode and cases and cases[0]['kind'] in ('trie',) and 'native' not in cfgs and 'tsan' not in cfgs:
        cfgs = list(cfgs) + ['native', 'sse42']          # the intrinsic arms of bit_tools.hpp, together and mixed
    for cfg in cfgs:
        ctx.configs_used.add(cfg)
        impl[cfg] = core.run_driver(cfg, blocks, '%s-%s' % (ctx.pid, tag))
    ocfg = oracle_cfg or cfgs[0]
    mres = {}
    if model and not ctx.search_mode:
        mres[None] = core.run_model(blocks, impl[ocfg], '%s-%s' % (ctx.pid, tag), env=model_env)
        for cfg, env in (per_cfg_model_env or {}).items():
            mres[cfg] = core.run_model(blocks, impl[cfg], '%s-%s-%s' % (ctx.pid, tag, cfg), env=env)
    errlog = {cfg: core.read_stderr_log('%s-%s' % (ctx.pid, tag), cfg) for cfg in cfgs}
    for cid, block in blocks:
        hdr, keys, ops = core.ops_of_block(block)
        ctx.count('kind:' + hdr[2])
        if keys:
            ctx.count('keys<=%d' % (1 if len(keys) <= 1 else 8 if len(keys) <= 8 else 64 if len(keys) <= 64 else 1000 if len(keys) <= 1000 else 10**6))
        for cfg in cfgs:
            lines = impl[cfg].get(cid, ['crash missing'])
            ctx.evaluations += max(1, len(lines) - 1)
            if cfg == cfgs[0]:
                ctx.nontrivial |= nontrivial_of(cid, block, lines)
                if len(ctx.samples) < 4 and len(block) < 1500:
                    ctx.samples.append({'case': block.strip().splitlines()[:12], 'implementation': [l[:160] for l in lines[:8]]})
            for prop, msg in judge(hdr, keys, ops, lines, cmap[cid]):
                det = errlog[cfg].get(cid, '')
                if det and any(w in msg for w in ('sanitizer', 'abort', 'crash')):
                    msg += ' :: ' + det
                ctx.violations.append({'prop': prop, 'msg': msg, 'case': cid, 'block': block, 'impl': lines[:60], 'config': cfg})
            if model and not ctx.search_mode:
                m = (mres.get(cfg) or mres[None]).get(cid)
                if m is None:
                    ctx.broken_ties.append({'what': 'model produced no transcript for case', 'case': cid, 'block': block})
                    continue
                if any(l.startswith('@drift') for l in m):
                    ctx.drift += 1
                if cfg == cfgs[0]:
                    for l in m:
                        if l.startswith('@cert ok'):
                            ctx.count('certificates ok')
                        elif l.startswith('@cert'):
                            ctx.broken_ties.append({'what': 'certificate check failed: the logical content of the file the implementation wrote does not reassemble to the same bytes or is not well formed for the key list (%s)' % l,
                                                    'case': cid, 'block': block})
                        elif l.startswith('@big'):
                            ctx.count('big dictionaries (model parses the implementation file)')
                d = core.compare_case(lines, m)
                if d is not None:
                    k, a, b = d
                    ctx.broken_ties.append({'what': 'correspondence: implementation (%s) and model differ at output line %d' % (cfg, k),
                                            'case': cid, 'block': block, 'impl_line': a[:400], 'model_line': b[:400]})
    return impl, mres

# ------------------------------------------------------------------ judges adapted to the (hdr,keys,ops,lines,case) signature
def paired(ops, body):
    """(op, line) pairs; FILE prints two lines (save, file): it is paired with the `file` line"""
    out, li = [], 0
    for op in ops:
        if li >= len(body):
            break
        if op == 'FILE' and body[li].startswith('save '):
            li += 1
            if li >= len(body): break
        out.append((op, body[li])); li += 1
    return out

def j_trie(hdr, keys, ops, lines, case):
    return judges.judge_trie(hdr, keys, ops, lines)
def j_comp(hdr, keys, ops, lines, case):
    k = hdr[2]
    if k == 'bv': return judges.judge_bv(hdr, ops, lines)
    if k == 'words': return judges.judge_words(hdr, ops, lines)
    if k == 'cv': return judges.judge_cv(hdr, ops, lines)
    if k == 'bc': return judges.judge_bc(hdr, ops, lines)
    if k == 'tail': return judges.judge_tail(hdr, ops, lines, case['meta'].get('by_tpos'))
    return []

# ------------------------------------------------------------------ key-set pools
def keysets(ctx, nshaped, nsmall, big=False, huge=False):
    out = list(gen.shaped_sets(ctx.rng, nshaped, big=big))
    if huge or (ctx.scale_on and big):
        out.append(gen.huge_set(ctx.rng))
        if ctx.pid in ('C01', 'C17'):
            # > 65536 units: node positions that differ by a multiple of 2^16 (the cell width of the 16-bit DAC); only
            # where the battery is light -- the list-based model needs minutes per save/load of such a dictionary
            az = bytes(range(97, 123))
            out.append(('huge16-100k', sorted(set(gen.rand_word(ctx.rng, az, 4, 10) for _ in range(60000)))))
            # dense fan-out: every two-byte key over 1..255 (65025 keys) plus some longer ones -- the children of the last
            # root children are placed beyond unit 65536, an exact multiple of 2^16 away from their parents
            dense = [bytes([x, y]) for x in range(1, 256) for y in range(1, 256)]
            dense += [bytes([x, 7, 9, x]) for x in range(1, 256)] + [bytes([x, 200, 3]) for x in range(1, 256, 2)]
            out.append(('huge16-dense2', sorted(set(dense))))

    alphas = [[97, 98], [0, 97], [97, 255], [0, 255]]
    for a in alphas:
        for K in gen.small_scope_sets(a, 2, ctx.rng, nsmall):
            out.append(('small-scope', K))
    return out

def run_scale_tries(ctx, make_ops, judge, cfgs=('rel',)):
    """key sets at power-of-two size boundaries (65536-byte shared prefixes, TAIL arrays of exactly 2^16 / 2^20 bytes):
    implementation vs specification only -- the list-based model is far too slow at this depth.  Thorough tier, and
    whenever a source file differs from anchors.lock.json."""
    if not ctx.scale_on:
        return
    os.environ.setdefault('VERIF_CASE_TIMEOUT', '300')
    sets = gen.scale_sets(ctx.rng)
    if ctx.tier == 'quick':
        sets = [s for s in sets if s[0] in ('scale-deep-65536', 'scale-tail-65536+0', 'scale-tail-1048576+0', 'scale-tail2-1048576')]
    cases = trie_cases(ctx, sets, make_ops, tag='z')
    correspond(ctx, cases, list(cfgs), judge, 'scale', model=False)

def trie_cases(ctx, sets, make_ops, containers='svcw', variants=gen.VARIANTS, bins=(0, 1), tag='t'):
    cases = []
    i = ctx.rng.randrange(24)
    for n, (desc, K) in enumerate(sets):
        v = variants[i % len(variants)]; b = bins[(i // 4) % len(bins)]; cont = containers[(i // 8) % len(containers)]
        if desc.startswith('huge') and 15 in variants:
            v = 15 if n % 2 == 0 else 16          # > 32768 units: the second DAC level of the 15/16-bit variants
        if desc.startswith('huge16') and 16 in variants:
            v = 16
        i += 1
        if desc.startswith('windows') and 'w' in containers: cont = 'w'     # keys handed over as aliasing windows of one buffer
        cases.append(gen.trie_case('%s%d-%s' % (tag, n, desc), v, b, cont, K, make_ops(K), {'desc': desc}))
        if desc.startswith('big-wide'):            # every variant: their block geometry differs (128- vs 256-unit L1 blocks)
            for v2 in variants:
                if v2 != v:
                    cases.append(gen.trie_case('%s%d-%s-v%d' % (tag, n, desc, v2), v2, b, cont, K, make_ops(K), {'desc': desc}))
    return cases

# ------------------------------------------------------------------ property runs
def run_c01(ctx):
    sets = keysets(ctx, ctx.scale(60, 400), ctx.scale(12, 127), big=True, huge=(ctx.tier == 'thorough'))
    def ops(K):
        ks = K if len(K) <= 200 else ctx.rng.sample(K, 200)
        return ['STATS'] + ['L ' + hexs(k) for k in ks] + gen.id_ops(K) + ['E']
    cases = trie_cases(ctx, sets, ops)
    # every configuration for a few fixed sets: 4 variants x 2 modes x 3 containers
    fixed = [('cfg-empty-key', [b'']), ('cfg-chain', [b'', b'a', b'ab', b'b\x00', b'\xff']), ('cfg-one', [b'apple'])]
    n = 0
    for desc, K in fixed:
        for v in gen.VARIANTS:
            for b in (0, 1):
                for c in 'svc':
                    cases.append(gen.trie_case('f%d-%s' % (n, desc), v, b, c, K, ops(K), {'desc': desc})); n += 1
    correspond(ctx, cases, ['rel', 'san'], j_trie, 'main')
    run_scale_tries(ctx, lambda K: ['STATS'] + ['L ' + hexs(k) for k in K] + gen.id_ops(K) + ['E'], j_trie)


def run_c02(ctx):
    sets = keysets(ctx, ctx.scale(50, 300), ctx.scale(10, 127), big=True, huge=(ctx.tier == 'thorough'))
    cases = trie_cases(ctx, sets, lambda K: ['L ' + hexs(q) for q in gen.deviation_queries(K, ctx.rng, ctx.scale(120, 400))])
    # exhaustive queries up to length 3 over alphabet + foreign + NUL on small-scope sets
    ex = []
    for a in ([97, 98], [0, 97], [97, 255]):
        Q = gen.exhaustive_queries(sorted(set(a + [0, 0x7a])), 3)
        for K in gen.small_scope_sets(a, 2, ctx.rng, ctx.scale(10, 127)):
            ex.append(('exh', K, Q))
    i = 0
    for n, (d, K, Q) in enumerate(ex):
        v, b, c = gen.pick_configs(ctx.rng, i); i += 1
        cases.append(gen.trie_case('x%d-exh' % n, v, b, c, K, ['L ' + hexs(q) for q in Q]))
    correspond(ctx, cases, ['rel', 'san'], j_trie, 'main')
    run_scale_tries(ctx, lambda K: ['L ' + hexs(q) for q in ([k for k in K] + [k[:-1] for k in K] + [k + b'a' for k in K] + [K[0][:len(K[0]) // 2]])], j_trie)


def j_c03(hdr, keys, ops, lines, case):
    V = judges.judge_trie(hdr, keys, ops, lines)
    # lockstep enumerations (two live iterators advanced alternately) are judged by the iterator machine
    V += [('C03', 'interleaved enumeration: ' + m) for p, m in j_hist(hdr, keys, ops, lines, case)]
    return V

def run_c03(ctx):
    sets = keysets(ctx, ctx.scale(60, 400), ctx.scale(12, 127), big=True, huge=(ctx.tier == 'thorough'))
    def ops(K):
        ks = K if len(K) <= 100 else ctx.rng.sample(K, 100)
        o = ['E', 'EC'] + ['L ' + hexs(k) for k in ks]
        if len(K) <= 80:
            # two enumerations alive at once, advanced alternately; then on the loaded / mapped dictionary
            o += ['IE 0', 'IE 1'] + ['N 0', 'N 1'] * (len(K) + 2)
            o += ['IE 2', 'N 2', 'IR 3 -', 'N 3', 'N 2', 'N 3', 'N 2']
            # an enumeration continued through a copy (bookmark) and through a move of the iterator
            half = max(1, len(K) // 2)
            o += ['IE 4'] + ['N 4'] * half + ['IC 4 5'] + ['N 5', 'N 4'] * (len(K) - half + 1) + ['IM 5 6', 'N 6']
            o += ['IE 4', 'N 4', 'IM 4 7'] + ['N 7'] * (len(K) + 1)
        o += ['USE load', 'E', 'EC']
        if len(K) <= 80:
            o += ['IE 0', 'IE 1'] + ['N 0', 'N 1'] * (len(K) + 1)
        o += ['USE mmap %d' % ctx.rng.choice([0, 1, 4, 7]), 'E', 'EC']
        return o
    correspond(ctx, trie_cases(ctx, sets, ops), ['rel', 'san'], j_c03, 'main')
    run_scale_tries(ctx, lambda K: ['E', 'EC', 'USE load', 'E'] + ['L ' + hexs(k) for k in K], j_c03)


def run_c04(ctx):
    sets = keysets(ctx, ctx.scale(50, 300), ctx.scale(10, 127), big=True, huge=(ctx.tier == 'thorough'))
    def ops(K):
        o = []
        for q in gen.deviation_queries(K, ctx.rng, ctx.scale(70, 250)):
            o.append('P ' + hexs(q)); o.append('PC ' + hexs(q))
        return o + ['L ' + hexs(k) for k in (K if len(K) <= 60 else ctx.rng.sample(K, 60))]
    correspond(ctx, trie_cases(ctx, sets, ops), ['rel', 'san'], j_trie, 'main')
    run_scale_tries(ctx, lambda K: [o for k in K for o in ('P ' + hexs(k + b'z'), 'PC ' + hexs(k))] + ['L ' + hexs(k) for k in K], j_trie)


def run_c05(ctx):
    sets = keysets(ctx, ctx.scale(50, 300), ctx.scale(10, 127), big=True, huge=(ctx.tier == 'thorough'))
    def ops(K):
        o = []
        qs = gen.deviation_queries(K, ctx.rng, ctx.scale(60, 200))
        if len(K) > 500:
            qs = [q for q in qs if len(q) >= 2][:40]       # avoid printing the whole dictionary per query
        for q in qs:
            o.append('R ' + hexs(q)); o.append('RC ' + hexs(q))
        return o + ['L ' + hexs(k) for k in (K if len(K) <= 60 else ctx.rng.sample(K, 60))]
    correspond(ctx, trie_cases(ctx, sets, ops), ['rel', 'san'], j_trie, 'main')
    run_scale_tries(ctx, lambda K: ['R -', 'RC -'] + [o for k in K for o in ('R ' + hexs(k[:-1]), 'RC ' + hexs(k[:len(k) // 2]), 'R ' + hexs(k + b'z'))] + ['L ' + hexs(k) for k in K], j_trie)


def j_c06(hdr, keys, ops, lines, case):
    V = judges.judge_trie(hdr, keys, ops, lines)
    files = [l for l in lines if l.startswith('file ')]
    saves = [l.split() for l in lines if l.startswith('save ')]
    stats = [l.split() for l in lines if l.startswith('stats ')]
    if files and any(f != files[0] for f in files):
        V.append(('C06', 're-saving the loaded/mapped dictionary changed the file bytes (generation %d)' % next(i for i, f in enumerate(files) if f != files[0])))
    for s in saves:
        if s[1] != s[2]:
            V.append(('C06', 'save returned %s but the file has %s bytes' % (s[1], s[2])))
        if stats and s[1] != stats[0][9]:
            V.append(('C06', 'save wrote %s bytes, memory_in_bytes says %s' % (s[1], stats[0][9])))
    if files:
        tid = int.from_bytes(bytes.fromhex(files[0][5:13]), 'little')
        if str(tid) != hdr[3]:
            V.append(('C06', 'file starts with tag %d, variant is %s' % (tid, hdr[3])))
    for l in lines:
        if l.startswith('tid ') and l.split()[1] != hdr[3]:
            V.append(('C06', 'get_type_id = %s for variant %s' % (l.split()[1], hdr[3])))
        if l.startswith('use ') and l != 'use ok':
            V.append(('C06', 'load/mmap of the saved file -> %s' % l))
    for l in lines:
        if l.startswith('pipeload ') and l != 'pipeload same':
            V.append(('C06', 'loading the saved bytes through a pipe (a source that cannot seek) -> %s' % l))
        if l.startswith('saveover ') and l.split()[1].startswith('ret:'):
            d = dict(x.split(':') for x in l.split()[1:])
            if d.get('ret') != d.get('size') or d.get('same') != '1':
                V.append(('C06', 'save onto an existing longer file returned %s but the file has %s bytes (equal to a fresh save: %s)' % (d.get('ret'), d.get('size'), d.get('same'))))
    if len(stats) > 1 and any(s != stats[0] for s in stats):
        V.append(('C06', 'statistics differ after load/mmap: %s vs %s' % (stats[0], next(s for s in stats if s != stats[0]))))
    return V

def run_c06(ctx):
    sets = keysets(ctx, ctx.scale(40, 250), ctx.scale(6, 60), big=True, huge=(ctx.tier == 'thorough'))
    def ops(K):
        bat = gen.battery(K, ctx.rng, ctx.scale(12, 40)) + gen.id_ops(K)[:12] + ['E']
        o = ['STATS', 'FILE', 'TID', 'SAVEOVER %d' % ctx.rng.choice([1, 7, 512, 5000]), 'PIPELOAD'] + bat
        o += ['USE load', 'STATS', 'FILE', 'SAVEOVER 100'] + bat
        for off in ([ctx.rng.choice([0, 8]), ctx.rng.choice([1, 3, 4, 7, 4095])] if ctx.tier == 'quick' else [0, 1, 3, 4, 7, 9, 4095]):
            o += ['USE mmap %d' % off, 'STATS', 'FILE'] + bat
        o += ['USE mmapend', 'STATS', 'FILE', 'SAVEOVER 3'] + bat
        return o
    correspond(ctx, trie_cases(ctx, sets, ops), ['rel', 'san'], j_c06, 'main')
    run_scale_tries(ctx, lambda K: ['STATS', 'FILE', 'USE load', 'STATS', 'FILE', 'L ' + hexs(K[0]), 'USE mmap 1', 'STATS', 'FILE', 'L ' + hexs(K[-1]), 'E'], j_c06)


def j_c07(hdr, keys, ops, lines, case):
    V = []
    for k, l in enumerate(lines):
        if l.startswith(('crash', 'sanitizer', 'abort', 'timeout')) or ' other:' in l:
            if spec.valid_keys(keys):
                opi = k - 1
                V.append(('C07', 'valid use ended with "%s" (config-dependent) at %s' % (l, ops[opi] if 0 <= opi < len(ops) else 'build')))
    return V

def run_c07(ctx):
    sets = keysets(ctx, ctx.scale(50, 300), ctx.scale(10, 100), big=True, huge=(ctx.tier == 'thorough'))
    def ops(K):
        bat = gen.battery(K, ctx.rng, ctx.scale(40, 120)) + gen.id_ops(K) + ['E', 'EC', 'STATS']
        unbound = ['IDP 0', 'N 0', 'N 0', 'IDR 1', 'N 1', 'NI 1', 'IP 2 ' + hexs(K[0]), 'N 2', 'N 2', 'N 2', 'IE 3', 'N 3']
        return bat + unbound + ['USE load'] + bat[:60] + unbound + ['USE mmapend'] + bat[:60] + ['USE mmap 3'] + bat[:30] + ['MV'] + bat[:20]
    cases = trie_cases(ctx, sets, ops)
    correspond(ctx, cases, ['san'], lambda *a: j_c07(*a) , 'main')
    # the alignment configuration exhibits the known finding F13 on one mapped case
    al = [gen.trie_case('align-mmap', 8, 0, 's', [b'apple', b'b'], ['USE mmap 0', 'L 62', 'E'])]
    correspond(ctx, al, ['align'], lambda *a: j_c07(*a), 'align', model=False)

def run_c08(ctx):
    lists = gen.malformed_lists(ctx.rng, ctx.tier if not ctx.search_mode else 'thorough')
    cases = []
    for n, L in enumerate(lists):
        v = gen.VARIANTS[n % 4]; b = (n // 4) % 2; c = 'svcw'[(n // 2) % 4]
        cases.append(gen.trie_case('m%d' % n, v, b, c, L, ['STATS']))
    for L in lists[:16]:
        for c in 'svcw':
            for v in gen.VARIANTS:
                cases.append(gen.trie_case('mf%d' % len(cases), v, 0, c, L, ['STATS']))
    def j(hdr, keys, ops, lines, case):
        V = judges.judge_trie(hdr, keys, ops, lines)
        return V
    correspond(ctx, cases, ['rel', 'san'], j, 'main')

def run_c09(ctx):
    pats = gen.bv_patterns(ctx.rng, ctx.tier)
    cases = [gen.bv_case('bv%d-%s' % (n, d), bits) for n, (d, bits) in enumerate(pats)]
    cases += [gen.bv_case('bvr%d-%s' % (n, d), bits, 1, 0) for n, (d, bits) in enumerate(pats[:20])]
    cases += gen.bv_builder_cases(ctx.rng, ctx.scale(40, 300))
    cases.append(gen.words_case('words0', ctx.rng, ctx.scale(150, 3000)))
    correspond(ctx, cases, ['O3', 'native', 'sse42', 'san'], j_comp, 'main',
               per_cfg_model_env={'native': {'XMODEL_INTR': '1'}})
    if ctx.scale_on:
        # counters beyond 2^31 / 2^32: implementation vs arithmetic (no model: a list of 2^31 booleans is out of reach)
        os.environ.setdefault('VERIF_CASE_TIMEOUT', '600')
        correspond(ctx, scale_bv_cases()[:1 if ctx.tier == 'quick' else 2], ['O3'], j_scale_bv, 'scale', model=False)

def j_scale_bv(hdr, keys, ops, lines, case):
    V = []
    exp = case['meta']['expect']
    got = [l for l in lines if l.split()[0] in ('bvq', 'rank', 'select', 'get', 'bsize')]
    if got != exp:
        k = next((i for i in range(min(len(got), len(exp))) if got[i] != exp[i]), min(len(got), len(exp)))
        V.append(('C09', 'scale bit vector (%s): got %r expected %r' % (case['meta']['desc'], got[k:k + 1] or lines[-1:], exp[k:k + 1])))
    return V

def scale_bv_cases():
    out = []
    for n in (2 ** 31 + 1, 2 ** 32 + 70):
        # n ones followed by 5 zeros and a one
        size, ones = n + 6, n + 1
        ops = ['PUSHN %d 1' % n, 'PUSHN 5 0', 'PUSHN 1 1', 'BSIZE', 'BUILDQ', 'RANK %d' % size, 'RANK %d' % n, 'RANK %d' % (2 ** 31),
               'SELECT %d' % (ones - 1), 'SELECT %d' % (2 ** 31 - 1), 'SELECT %d' % (n - 1), 'GET %d' % (size - 1), 'GET %d' % (size - 2)]
        exp = ['bsize %d' % size, 'bvq %d %d' % (size, ones), 'rank %d' % ones, 'rank %d' % n, 'rank %d' % (2 ** 31),
               'select %d' % (size - 1), 'select %d' % (2 ** 31 - 1), 'select %d' % (n - 1), 'get 1', 'get 0']
        out.append({'id': 'bvscale-%d' % n, 'kind': 'bv', 'args': [1, 1], 'keys': None, 'ops': ops,
                    'meta': {'expect': exp, 'desc': '%d ones' % ones}})
    return out

def run_c10(ctx):
    cases = gen.cv_cases(ctx.rng, ctx.scale(40, 400)) + gen.bc_cases(ctx.rng, ctx.scale(12, 120), ctx.tier)
    correspond(ctx, cases, ['rel', 'san'], j_comp, 'main')

def run_c11(ctx):
    base = gen.tail_cases(ctx.rng, ctx.scale(60, 600))
    # phase 1: build only, to learn the assigned positions
    text = ''.join(gen.render(c) for c in base)
    blocks = core.split_cases(text)
    res = core.run_driver('rel', blocks, '%s-phase1' % ctx.pid)
    cases = []
    for c in base:
        lines = res.get(c['id'], [])
        posl = next((l for l in lines if l.startswith('pos')), None)
        sufs = c['meta']['sufs']
        c2 = dict(c); c2['meta'] = dict(c['meta'])
        if posl is not None and '?' not in posl and all(s for s, _ in sufs):
            pos = {int(a): int(b) for a, b in (f.split(':') for f in posl.split()[1:])}
            c2['ops'] = c['ops'] + gen.tail_probes(sufs, pos, ctx.rng, c['args'][0])
            by = {pos[np]: s for s, np in sufs}
            by[0] = b''
            c2['meta']['by_tpos'] = by
        cases.append(c2)
    correspond(ctx, cases, ['rel', 'san'], j_comp, 'main')

def conc_case(cid, v, b, src, K, threads):
    ops = []
    for k, tops in enumerate(threads):
        ops += ['T %d %s' % (k, o) for o in tops]
    return {'id': cid, 'kind': 'conc', 'args': [v, b, src, len(threads)], 'keys': K, 'ops': ops, 'meta': {}}

def j_conc(hdr, keys, ops, lines, case):
    V = []
    if not lines or lines[0] != 'build ok':
        return [('C12', 'conc case: %s' % lines[:1])]
    for l in lines:
        if l.startswith(('crash', 'sanitizer', 'abort', 'timeout')):
            V.append(('C12', 'concurrent readers: %s' % l))
        if ' savebad ' in l and not l.endswith('savebad exc'):
            V.append(('C12', 'concurrent failing save: %s' % l))
    # every thread's transcript must be what a sequential run gives (judged against the spec)
    nth = int(hdr[6])
    for k in range(nth):
        tops = [o.split(' ', 2)[2] for o in ops if o.startswith('T %d ' % k)]
        tl = [l.split(' ', 2)[2] for l in lines[1:] if l.startswith('t %d ' % k)]
        if len(tl) != len([o for o in tops]):
            continue
        pairs = [(o, l) for o, l in zip(tops, tl) if o.split()[0] in ('L', 'D', 'P', 'PC', 'R', 'RC', 'E', 'EC', 'STATS')]
        J = spec.TrieJudge(keys, hdr[4] == '1')
        for prop, msg in J.judge([p[0] for p in pairs], [p[1] for p in pairs]):
            V.append(('C12', 'thread %d: %s' % (k, msg)))
    return V

def run_c12(ctx):
    sets = keysets(ctx, ctx.scale(24, 120), ctx.scale(2, 10), big=True, huge=True)
    if ctx.tier == 'thorough':
        sets.append(gen.huge_set(ctx.rng))
    # > 65536 units: the second level of the 16-bit DAC (m_num_levels != 0 in bc_vector_16)
    az = bytes(range(97, 123))
    sets.append(('huge16-100k', sorted(set(gen.rand_word(ctx.rng, az, 4, 10) for _ in range(60000)))))
    # a saved file of more than 4 MiB (size-dependent paths of save / load): 45 000 keys with 100-byte unshared suffixes
    sets.append(('hugefile-5m', sorted(set(gen.rand_word(ctx.rng, az, 100, 100) for _ in range(45000)))))
    cases = []
    for n, (d, K) in enumerate(sets):
        v, b, _ = gen.pick_configs(ctx.rng, n)
        if d.startswith('huge'):
            v = 15 if n % 2 == 0 else 16
        if d.startswith('huge16'):
            v = 16
        src = ['built', 'load', 'mmap'][n % 3]
        nth = ctx.rng.choice([2, 3, 4, 8, 16] if ctx.tier == 'thorough' else [2, 4, 8])
        bat = gen.battery(K, ctx.rng, 25, kinds=('L', 'P', 'R', 'PC', 'RC')) + gen.id_ops(K)[:10] + ['E', 'EC', 'STATS', 'MEM', 'SAVE', 'SAVEBAD full', 'SAVEBAD nodir', 'SAVEBAD nodir', 'SAVEBAD full']
        if len(K) > 5000 or sum(map(len, K)) > 100000:
            bat = [o for o in bat if o not in ('E', 'EC') and not o.startswith(('R -', 'RC -'))]
        threads = []
        for k in range(nth):
            t = list(bat); ctx.rng.shuffle(t); threads.append(t[:ctx.rng.randint(10, 60)])
        if d.startswith('huge'):      # several threads save / size the big dictionary at the same time
            for k in range(min(3, nth)):
                threads[k] = ['SAVE', 'MEM', 'SAVE'] + threads[k]
        cases.append(conc_case('c%d-%s' % (n, d), v, b, src, K, threads))
    os.environ.setdefault('VERIF_CASE_TIMEOUT', '120')
    # the two largest dictionaries (> 65536 units; a file > 4 MiB) run implementation-vs-specification only under TSan:
    # the list-based model needs ten minutes for their certificate
    big = [c for c in cases if '-huge16' in c['id'] or '-hugefile' in c['id']]
    cases = [c for c in cases if c not in big]
    correspond(ctx, cases, ['tsan'], j_conc, 'main')
    correspond(ctx, big, ['tsan'], j_conc, 'big', model=False)

def hist_ops(ctx, K, n):
    """random operation histories over several live iterators, reused buffers, moves (C13)"""
    rng = ctx.rng
    Q = gen.deviation_queries(K, rng, 30)
    ops, live = [], {}
    for _ in range(n):
        r = rng.random()
        if r < 0.18 or not live:
            s = rng.randrange(6); k = rng.choice(['IP', 'IR', 'IE', 'IDP', 'IDR'] if rng.random() < 0.25 else ['IP', 'IR', 'IE'])
            if k in ('IP', 'IR'): ops.append('%s %d %s' % (k, s, hexs(rng.choice(Q))))
            else: ops.append('%s %d' % (k, s))
            live[s] = False
        elif r < 0.50:
            s = rng.choice(list(live)); ops.append('N %d' % s); live[s] = 'adv'
        elif r < 0.62:
            s = rng.choice(list(live)); ops.append('NI %d' % s); live[s] = 'adv'     # advance without reading the keyword
        elif r < 0.72:
            s = rng.choice(list(live)); d = rng.choice([x for x in range(6) if x != s])
            if rng.random() < 0.6:
                ops.append('IC %d %d' % (s, d)); live[d] = live[s]      # a copy: both go on independently
            else:
                ops.append('IM %d %d' % (s, d)); live[d] = live[s]; del live[s]   # moved: only the target goes on
            ops.append('N %d' % d)
        elif r < 0.80:
            ops.append('L ' + hexs(rng.choice(Q)))
        elif r < 0.90:
            ops.append('DI %d %d' % (rng.randrange(2), rng.randrange(len(K) + 2)))
        elif r < 0.92:
            ops.append('RELOADHERE')          # the dictionary object is assigned its own reloaded save; iterators stay bound
        elif r < 0.94:
            ops.append('MV'); live = {}
        elif r < 0.97:
            ops.append('USE load'); live = {}
        else:
            ops.append('USE mmap %d' % rng.choice([0, 4])); live = {}
    return [o for o in ops if o]

def j_hist(hdr, keys, ops, lines, case):
    """abstract machine: per iterator slot (kind, query, number of successful advances)"""
    V = []
    if not spec.valid_keys(keys):
        return V
    if not lines or lines[0] != 'build ok':
        return [('C13', 'build: %s' % lines[:1])]
    K = keys
    slots = {}
    ids = {}
    body = lines[1:]
    for op, ln in paired(ops, body):
        o, l = op.split(), ln.split()
        if ln.startswith(('crash', 'sanitizer', 'abort', 'timeout')):
            V.append(('C13', 'history ended with %s at %s' % (ln, op))); break
        if o[0] in ('IP', 'IR'):
            q = spec.unhex(o[2]); slots[int(o[1])] = [spec.spec_prefixes(K, q) if o[0] == 'IP' else spec.spec_completions(K, q), 0, None]
        elif o[0] == 'IE':
            slots[int(o[1])] = [list(K), 0, None]
        elif o[0] in ('IDP', 'IDR'):
            slots[int(o[1])] = [[], 0, None]
        elif o[0] in ('IC', 'IM'):
            src = slots.get(int(o[1]))
            if src is not None:
                slots[int(o[2])] = list(src)
                if o[0] == 'IM': del slots[int(o[1])]
            if l[:2] not in (['ic', 'ok'], ['im', 'ok']):
                V.append(('C13', 'copying / moving an iterator -> %s' % ln))
        elif o[0] in ('MV',) or (o[0] == 'USE'):
            slots = {}
        elif o[0] == 'NI':
            s = slots.get(int(o[1]))
            if s is None: continue
            lst, j, _ = s
            if j < len(lst):
                if l[:2] != ['ni', '1']:
                    V.append(('C13', 'iterator advance #%d (keyword not read): got %s expected key %s' % (j, l, hexs(lst[j]))))
                else:
                    k = lst[j]; i = int(l[2])
                    if k in ids and ids[k] != i:
                        V.append(('C13', 'id of %s changed from %d to %d during the history' % (hexs(k), ids[k], i)))
                    ids.setdefault(k, i); s[2] = (i, k)
                s[1] = j + 1
            elif l != ['ni', '0']:
                V.append(('C13', 'exhausted/default iterator answered %s' % l))
        elif o[0] == 'N':
            s = slots.get(int(o[1]))
            if s is None: continue
            lst, j, _ = s
            if j < len(lst):
                if l[:2] != ['n', '1'] or spec.unhex(l[3]) != lst[j]:
                    V.append(('C13', 'iterator advance #%d: got %s expected key %s (history op %s)' % (j, l, hexs(lst[j]), op)))
                else:
                    k = lst[j]; i = int(l[2])
                    if k in ids and ids[k] != i:
                        V.append(('C13', 'id of %s changed from %d to %d during the history' % (hexs(k), ids[k], i)))
                    ids.setdefault(k, i); s[2] = (i, k)
                s[1] = j + 1
            else:
                if l != ['n', '0']:
                    V.append(('C13', 'exhausted/default iterator answered %s' % l))
        elif o[0] == 'G':
            s = slots.get(int(o[1]))
            if s and s[2] is not None and (l[:1] != ['g'] or int(l[1]) != s[2][0] or spec.unhex(l[2]) != s[2][1]):
                V.append(('C13', 'current result not stable: %s expected %s' % (l, s[2])))
        elif o[0] == 'L':
            q = spec.unhex(o[1])
            if (l[1] != '-') != (q in set(K)):
                V.append(('C13', 'lookup(%s) = %s inside a history' % (hexs(q), l[1])))
            elif l[1] != '-':
                i = int(l[1])
                if q in ids and ids[q] != i:
                    V.append(('C13', 'id of %s changed from %d to %d during the history' % (hexs(q), ids[q], i)))
                ids.setdefault(q, i)
        elif o[0] == 'DI':
            i = int(o[2]); got = spec.unhex(l[1]) if len(l) > 1 and l[1] not in ('exc',) else None
            inv = {v: k for k, v in ids.items()}
            if i >= len(K):
                if got != b'': V.append(('C13', 'decode(%d) into a reused buffer = %s expected empty' % (i, l[1:])))
            elif i in inv and got != inv[i]:
                V.append(('C13', 'decode(%d) into a reused buffer = %s expected %s' % (i, l[1:], hexs(inv[i]))))
            elif got is not None and got not in set(K):
                V.append(('C13', 'decode(%d) into a reused buffer = %s, not a key' % (i, l[1:])))
    return V

def run_c13(ctx):
    sets = keysets(ctx, ctx.scale(50, 300), ctx.scale(6, 40))
    def ops(K):
        o = hist_ops(ctx, K, ctx.scale(80, 200))
        # insert G after successful-looking advances is decided at judge time; add some G ops after N
        out = []
        for x in o:
            out.append(x)
            if x.startswith(('N ', 'NI ')) and ctx.rng.random() < 0.3:
                out.append('G ' + x.split()[1] + ' ?')
        return [y.replace(' ?', '') for y in out]
    cases = trie_cases(ctx, sets, ops)
    # G on a slot whose last N returned false reads an unspecified value: drop those by a dry run on the spec
    cleaned = []
    for c in cases:
        K = c['keys']; slots = {}; new = []
        for op in c['ops']:
            o = op.split()
            if o[0] in ('IP', 'IR'):
                q = spec.unhex(o[2]); slots[int(o[1])] = [len(spec.spec_prefixes(K, q) if o[0] == 'IP' else spec.spec_completions(K, q)), 0, False]
            elif o[0] == 'IE': slots[int(o[1])] = [len(K), 0, False]
            elif o[0] in ('IDP', 'IDR'): slots[int(o[1])] = [0, 0, False]
            elif o[0] in ('IC', 'IM'):
                src = slots.get(int(o[1]))
                if src is None: continue
                slots[int(o[2])] = list(src)
                if o[0] == 'IM': del slots[int(o[1])]
            elif o[0] in ('MV', 'USE'): slots = {}
            elif o[0] in ('N', 'NI'):
                s = slots.get(int(o[1]))
                if s is None: continue
                s[2] = s[1] < s[0]; s[1] += 1
            elif o[0] == 'G':
                s = slots.get(int(o[1]))
                if s is None or not s[2]: continue
            new.append(op)
        c['ops'] = new; cleaned.append(c)
    correspond(ctx, cleaned, ['rel', 'san'], j_hist, 'main')

def j_c14(hdr, keys, ops, lines, case):
    V = []
    if not lines or lines[0] != 'build ok':
        return [('C14', 'build: %s' % lines[:1])]
    for op, ln in paired(ops, lines[1:]):
        o = op.split()
        if ln.startswith(('crash', 'sanitizer', 'abort', 'timeout')):
            V.append(('C14', '%s -> %s' % (op, ln))); break
        if o[0] in ('XL', 'XM'):
            exp = 'ok' if o[1] == hdr[3] else 'exc'
            if ln.split()[1] != exp:
                V.append(('C14', '%s of a variant-%s file as variant %s -> %s, expected %s' % ('load' if o[0] == 'XL' else 'mmap', hdr[3], o[1], ln.split()[1], exp)))
        elif o[0] == 'XLRO' and ln not in ('xlro ok', 'xlro skip'):
            V.append(('C14', 'load of the variant\'s own file, readable but not writable by the process -> %s' % ln))
        elif o[0] == 'TID' and ln != 'tid ' + hdr[3]:
            V.append(('C14', 'get_type_id -> %s for variant %s' % (ln, hdr[3])))
        elif o[0] == 'BADPATH' and ln != 'badpath exc':
            V.append(('C14', '%s on an unopenable path (%s) -> %s, expected xcdat::exception' % (o[1], o[2], ln)))
    return V

def run_c14(ctx):
    sets = keysets(ctx, ctx.scale(16, 80), ctx.scale(2, 10))
    cases = []
    n = 0
    for d, K in sets:
        for v in gen.VARIANTS:
            b = n % 2; n += 1
            ops = ['TID'] + ['XL %d' % w for w in gen.VARIANTS] + ['XM %d' % w for w in gen.VARIANTS]
            ops += ['XLRO']
            ops += ['BADPATH load missing', 'BADPATH load noparent', 'BADPATH tid missing', 'BADPATH tid noparent',
                    'BADPATH save noparent', 'BADPATH save dir']
            # other ways of not being openable: ENAMETOOLONG, ELOOP, ENOTDIR, the empty path, a directory
            ops += ['BADPATH %s %s' % (fn, w) for fn in ('load', 'tid', 'save') for w in ('longname', 'symloop', 'notdir', 'empty')]
            ops += ['BADPATH load dir', 'BADPATH tid dir']
            cases.append(gen.trie_case('v%d-%s' % (n, d), v, b, 's', K, ops))
    correspond(ctx, cases, ['rel'], j_c14, 'main')

def j_c15(hdr, keys, ops, lines, case):
    V = []
    for l in lines:
        if l.startswith('truncall'):
            f = l.split()
            if f[2] != '-':
                cuts = f[2].split(',')
                V.append(('C15', 'a %s-byte variant-%s file truncated to %s%s bytes still loads' % (f[1], hdr[3], ','.join(cuts[:6]), '...' if len(cuts) > 6 else '')))
        if l.startswith('trunc ') and l != 'trunc exc':
            V.append(('C15', 'truncated file: %s' % l))
        if l.startswith(('crash', 'sanitizer', 'abort', 'timeout')):
            V.append(('C15', 'loading a truncated file: %s' % l))
        if l.startswith('use ') and l != 'use ok':
            V.append(('C15', 'the complete file does not load: %s' % l))
    return V

def run_c15(ctx):
    sets = [s for s in keysets(ctx, ctx.scale(14, 60), ctx.scale(1, 6)) if sum(map(len, s[1])) < 3000]
    cases = trie_cases(ctx, sets, lambda K: ['TRUNCALL', 'USE load', 'L ' + hexs(K[0])], containers='s')
    correspond(ctx, cases, ['rel', 'cxx20'], j_c15, 'main')      # also with the headers compiled as C++20
    if ctx.scale_on:
        os.environ.setdefault('VERIF_CASE_TIMEOUT', '300')
        n = 2 ** 25 + 5          # a body of more than two 16 MiB pieces
        K = [b'k' * n]
        size_guess = n + 1600
        cuts = [0, 3, 4, 100, 2000, 2 ** 20, size_guess // 8, size_guess // 3, 2 ** 24, 2 ** 24 + 2 ** 20, size_guess // 2 + 7, 2 ** 25, n, n + 1500]
        sc = [gen.trie_case('z-scale-array-%d' % v, v, 0, 's', K, ['TRUNC %d' % c for c in cuts] + ['USE load', 'L ' + hexs(b'k')]) for v in (8, 15)]
        correspond(ctx, sc, ['rel'], j_c15, 'scale', model=False)
    small = [c for c in cases if sum(map(len, c['keys'])) < 200][:6]
    for c in small: c['id'] += '-san'
    correspond(ctx, small, ['san'], j_c15, 'san', model=False)

def j_c16(hdr, keys, ops, lines, case):
    V = []
    for l in lines:
        f = l.split()
        if f[0] == 'limitall' and f[2] != '-':
            cuts = f[2].split(',')
            V.append(('C16', 'save of a %s-byte file returned normally although the device refused writes after %s%s bytes' % (f[1], ','.join(cuts[:6]), '...' if len(cuts) > 6 else '')))
        if f[0] == 'limitt' and f[1] != 'exc':
            d = dict(x.split(':') for x in f[1:] if ':' in x)
            if d.get('load') != 'ok' or d.get('size') != d.get('ret'):
                V.append(('C16', 'a write was refused once (transient EFBIG at the limit) yet save returned %s; the file has %s bytes and load -> %s' % (d.get('ret'), d.get('size'), d.get('load'))))
        if f[0] == 'limit' and f[1].startswith('ret:'):
            # returned normally: must be complete
            d = dict(x.split(':') for x in f[1:])
            if d.get('load') != 'ok' or d.get('size') != d.get('ret'):
                V.append(('C16', 'save returned %s but the file has %s bytes and load -> %s' % (d.get('ret'), d.get('size'), d.get('load'))))
        if f[0] == 'saveover' and f[1].startswith('ret:'):
            d = dict(x.split(':') for x in f[1:])
            if d.get('ret') != d.get('size') or d.get('same') != '1':
                V.append(('C16', 'save onto an existing longer file returned %s but the file on disk has %s bytes' % (d.get('ret'), d.get('size'))))
        if f[0] == 'devfull' and f[1] != 'exc':
            V.append(('C16', 'save to a full device returned %s' % f[1]))
        if f[0] == 'badpath' and f[1] != 'exc':
            V.append(('C16', 'save to an unopenable target -> %s' % l))
        if l.startswith(('crash', 'sanitizer', 'abort', 'timeout')):
            V.append(('C16', 'failing save: %s' % l))
    return V

def run_c16(ctx):
    sets = [s for s in keysets(ctx, ctx.scale(10, 40), ctx.scale(1, 4)) if sum(map(len, s[1])) < 2000]
    def ops(K):
        return ['LIMITALL', 'DEVFULL', 'BADPATH save noparent', 'BADPATH save dir', 'LIMIT 1000000', 'SAVEOVER 1', 'SAVEOVER 9000'] + \
               ['LIMITT %d' % n for n in (0, 1, 4, 12, 100, 1000, 1100, 1500, 2047, 4096)]
    def big_ops(K):      # files > 8 KiB: refusals at and around stdio buffer boundaries, lasting and transient
        offs = [0, 1023, 1024, 4095, 4096, 8191, 8192, 8193, 12000, 16384, 20000]
        # transient refusals on a grid as well: which write call meets the refusal depends on the sizes of the vector
        # bodies (libstdc++ sends a body of >= 1024 bytes to the file directly, smaller ones through the buffer)
        grid = list(range(3, 40000, 509))
        return ['LIMIT %d' % n for n in offs] + ['LIMITT %d' % n for n in offs + grid] + ['DEVFULL']
    cases = trie_cases(ctx, sets, ops, containers='s')
    bigsets = [s for s in gen.shaped_sets(ctx.rng, 0, big=True) if s[0] in ('big-4k', 'big-complete4')][:2]
    cases += trie_cases(ctx, bigsets, big_ops, containers='s', tag='b')
    correspond(ctx, cases, ['rel'], j_c16, 'main')

def run_c17(ctx):
    sets = keysets(ctx, ctx.scale(80, 500), ctx.scale(20, 127), big=True, huge=(ctx.tier == 'thorough'))
    correspond(ctx, trie_cases(ctx, sets, lambda K: ['STATS']), ['rel'], j_trie, 'main')
    run_scale_tries(ctx, lambda K: ['STATS'], j_trie)


def run_c18(ctx):
    sets = keysets(ctx, ctx.scale(30, 150), ctx.scale(4, 30), big=True, huge=(ctx.tier == 'thorough'))
    cases = []
    n = 0
    for d, K in sets:
        v = gen.VARIANTS[n % 4]; b = (n // 4) % 2
        for c in 'svcw':
            cases.append(gen.trie_case('d%d%s-%s' % (n, c, d), v, b, c, K, ['FILE', 'USE load', 'FILE']))
        # wide alphabets with many keys stress the block search of the builder differently per variant (an L1 block of
        # trie_7 is 128 units, character codes go up to 255): build those sets with every variant
        if len(K) >= 100 and len(set(x for k in K for x in k)) > 128:
            for v2 in gen.VARIANTS:
                if v2 != v:
                    cases.append(gen.trie_case('d%ds-v%d-%s' % (n, v2, d), v2, b, 's', K, ['FILE', 'USE load', 'FILE']))
        n += 1
    cfgs = ['O0a', 'O3', 'native', 'sse42', 'clang', 'cxx20']
    impl, _ = correspond(ctx, cases, cfgs, lambda *a: [], 'main')
    # bytes must agree across containers and configurations
    byset = {}
    for c in cases:
        key = c['id'].split('-', 1)[0][:-1] + '-' + c['id'].split('-', 1)[1]
        for cfg in cfgs:
            f = [l for l in impl[cfg].get(c['id'], []) if l.startswith('file ')]
            byset.setdefault(key, []).append((cfg, c['args'][2], f[0] if f else '<no file: %s>' % impl[cfg].get(c['id'], [])[:1], c))
    for key, lst in byset.items():
        ref = lst[0]
        for cfg, cont, f, c in lst[1:]:
            if f != ref[2]:
                ctx.violations.append({'prop': 'C18', 'msg': 'file bytes differ: config %s container %s vs config %s container %s (keys %d)' % (cfg, cont, ref[0], ref[1], len(c['keys'])),
                                       'case': c['id'], 'block': gen.render(c), 'impl': [f[:200], ref[2][:200]], 'config': cfg})
                break

PROPS = {
    'C01': {'run': run_c01}, 'C02': {'run': run_c02}, 'C03': {'run': run_c03}, 'C04': {'run': run_c04},
    'C05': {'run': run_c05}, 'C06': {'run': run_c06}, 'C07': {'run': run_c07}, 'C08': {'run': run_c08},
    'C09': {'run': run_c09}, 'C10': {'run': run_c10}, 'C11': {'run': run_c11}, 'C12': {'run': run_c12},
    'C13': {'run': run_c13}, 'C14': {'run': run_c14}, 'C15': {'run': run_c15}, 'C16': {'run': run_c16},
    'C17': {'run': run_c17}, 'C18': {'run': run_c18},
}

# ------------------------------------------------------------------ decision, known findings, evidence
def load_known():
    p = os.path.join(VERIF, 'known_findings.json')
    if not os.path.exists(p):
        return []
    return json.load(open(p)).get('known', [])

def decide(ctx, P):
    pid = ctx.pid
    mine = [v for v in ctx.violations if v['prop'] == pid]
    known = [k for k in load_known() if k['property'] == pid]
    printed, unknown = set(), []
    for v in mine:
        k = next((k for k in known if re.search(k['match'], v['msg']) and (not k.get('config') or k['config'] == v.get('config'))), None)
        if k is not None:
            if k['id'] not in printed:
                print('KNOWN-FINDING: property=%s %s' % (pid, k['what'])); printed.add(k['id'])
        else:
            unknown.append(v)
    ctx.known_hit = sorted(printed)
    proof_bad = ctx.proof is not None and (ctx.proof['obligations'] != ctx.proof['discharged'] or ctx.proof['forbidden'] or
                                           (ctx.proof['obligations'] > 0 and not ctx.proof['compiled']))
    rc = 0
    if unknown:
        v = shrink_trie(ctx, unknown[0], P)
        path = core.write_replay(pid, 'violation', {'property': pid, 'what': v['msg'], 'config': v.get('config'), 'case_id': v['case'],
                                                      'case': v['block'], 'implementation_output': v['impl'],
                                                      'others': [u['msg'] for u in unknown[1:20]], 'seed': ctx.seed, 'tier': ctx.tier})
        print('VIOLATION property=%s replay=%s' % (pid, path))
        log_summary(ctx, unknown)
        rc = 1
    elif ctx.broken_ties or proof_bad:
        # the tie or a proof obligation is broken: search implementation vs spec for a failing input
        found = None
        if not ctx.search_mode and ctx.model_ok is not None:
            s = Ctx(pid, ctx.tier, ctx.seed + 7919)
            s.search_mode = True
            try:
                P['run'](s)
            except Exception as e:
                s.notes.append('search failed: %s' % e)
            ctx.evaluations += s.evaluations
            ctx.notes.append('failing-input search: %d evaluations' % s.evaluations)
            sm = [v for v in s.violations if v['prop'] == pid and not any(re.search(k['match'], v['msg']) for k in known)]
            if sm:
                found = sm[0]
        what = []
        if proof_bad:
            for d in (ctx.proof or {}).get('detail', []):
                if not d['ok']:
                    what.append('proof obligation %s: %s / %s' % (d['theorem'], d['status'], d['assumptions'][:200]))
            what += ['forbidden construct: ' + f for f in (ctx.proof or {}).get('forbidden', [])]
        what += [b['what'] + (' [case %s]' % b['case'] if b.get('case') else '') for b in ctx.broken_ties[:10]]
        if found:
            path = core.write_replay(pid, 'violation', {'property': pid, 'what': found['msg'], 'case_id': found['case'], 'case': found['block'],
                                                          'implementation_output': found['impl'], 'broken': what, 'seed': ctx.seed})
            print('VIOLATION property=%s replay=%s' % (pid, path))
        else:
            b = ctx.broken_ties[0] if ctx.broken_ties else {}
            path = core.write_replay(pid, 'broken-tie', {'property': pid, 'no_longer_checks': what, 'first_case_id': b.get('case'),
                                                           'first_case': b.get('block'), 'implementation_line': b.get('impl_line'),
                                                           'model_line': b.get('model_line'), 'seed': ctx.seed, 'tier': ctx.tier})
            print('VIOLATION property=%s replay=%s no-failing-input-found' % (pid, path))
        for w in what[:10]:
            core.log('  broken: ' + w)
        rc = 1
    ctx.rc = rc
    return rc

def shrink_trie(ctx, v, P):
    """greedy minimisation of a failing trie case: keep only the violating op, then drop / shorten keys while the
    same property is still violated (re-running the implementation, judged against the spec)"""
    try:
        hdr, keys, ops = core.ops_of_block(v['block'])
        if hdr[2] != 'trie':
            return v
        cfg = v.get('config') or 'rel'
        if cfg not in core.CONFIGS:
            return v
        pid = v['prop']
        def violates(cands):
            cases = [gen.trie_case('s%d' % i, hdr[3], hdr[4] == '1', hdr[5], K, O) for i, (K, O) in enumerate(cands)]
            blocks = core.split_cases(''.join(gen.render(c) for c in cases))
            res = core.run_driver(cfg, blocks, '%s-shrink' % ctx.pid)
            out = []
            for (cid, b), (K, O) in zip(blocks, cands):
                h, k, o = core.ops_of_block(b)
                vs = [m for p, m in j_any(h, k, o, res.get(cid, []), pid) if p == pid]
                out.append(vs[0] if vs else None)
            return out
        best = (keys, ops, v['msg'])
        # 1. single ops
        singles = [(keys, [o]) for o in ops if o != 'FILE'][:400]
        r = violates(singles)
        hit = next((i for i, m in enumerate(r) if m), None)
        if hit is not None:
            best = (keys, singles[hit][1], r[hit])
        # 2. drop keys
        for _ in range(12):
            K, O, _m = best
            if len(K) <= 1: break
            cands = []
            step = max(1, len(K) // 8)
            for i in range(0, len(K), step):
                K2 = K[:i] + K[i + step:]
                if K2 and spec.valid_keys(K2) == spec.valid_keys(K): cands.append((K2, O))
            if not cands: break
            r = violates(cands[:64])
            hit = next((i for i, m in enumerate(r) if m), None)
            if hit is None:
                if step == 1: break
                continue
            best = (cands[hit][0], O, r[hit])
        K, O, m = best
        c = gen.trie_case(v['case'] + '-min', hdr[3], hdr[4] == '1', hdr[5], K, O)
        v2 = dict(v); v2['block'] = gen.render(c); v2['msg'] = m + '  (minimised from case %s)' % v['case']; v2['minimised'] = True
        return v2
    except Exception as e:
        core.log('shrink failed: %r' % e)
        return v

def j_any(hdr, keys, ops, lines, pid):
    """the judge matching property pid, for shrinking"""
    J = {'C06': j_c06, 'C07': j_c07, 'C13': j_hist, 'C14': j_c14, 'C15': j_c15, 'C16': j_c16}.get(pid, j_trie)
    return J(hdr, keys, ops, lines, {'meta': {}})

def log_summary(ctx, vs):
    seen = set()
    for v in vs:
        sig = re.sub(r'[0-9a-f]{4,}|\d+', '#', v['msg'])[:80]
        if sig in seen: continue
        seen.add(sig)
        core.log('  violation [%s/%s] %s' % (v['case'], v.get('config'), v['msg'][:300]))
        if len(seen) > 12: break

RULES = {
    'default': 'cases come from the shaped/small-scope key-set pools and the per-dictionary deviation closure of queries (harness/gen.py), all drawn from one PRNG seeded with VERIF_SEED; distinct_nontrivial counts distinct (key set + configuration, implementation output line) pairs whose answer is not the trivial one (a miss, an empty result list, an "ok")',
}

def write_evidence(ctx, P):
    pr = ctx.proof or {'obligations': 0, 'discharged': 0, 'detail': [], 'forbidden': []}
    has_proof = pr['obligations'] > 0
    cov = {
        'evaluations': int(ctx.evaluations), 'distinct_nontrivial': len(ctx.nontrivial),
        'rule': RULES.get(ctx.pid, RULES['default']),
        'samples': ctx.samples[:4] or [{'note': 'no case was run (build failure)'}],
        'obligations': pr['obligations'], 'discharged': pr['discharged'],
        'checker_cmd': 'sh coq/build.sh  (coq_makefile + make: full .vo build with coqc 8.16.1; then coqc on a generated probe running Print Assumptions on every theorem of coq/Properties_%s.v)' % ctx.pid,
        'trusted_base': ['Coq 8.16.1 kernel (coqc, vm_compute for finite sweeps; no native_compute)',
                         'axioms: none (every property theorem is "Closed under the global context")',
                         'extraction: ExtrOcamlBasic directives only; OCaml 4.13.1; hand-written ocaml/xmodel.ml glue',
                         'translators consts.py, bittools.py, layout.py, access.py (regenerate Consts.v, BitToolsGen.v, LayoutGen.v, AccessGen.v, AccessTrieGen.v from the headers on every run); hand-written AccessDispatch.v',
                         'structural ties: harness/narrowing.py (integer widths), harness/literals.py (inline constants), anchors.lock.json (source drift)',
                         'correspondence harness: harness/driver.cpp, harness/*.py, g++ 12 / clang 14, sanitizers',
                         'hand transcription of the C++ into coq/*.v (validated by the correspondence on every run)'],
        'theorems': pr['detail'], 'forbidden_constructs': pr['forbidden'], 'coqchk': pr.get('coqchk'),
        'configs': sorted(ctx.configs_used), 'input_distribution': ctx.dist,
        'broken_ties': [b['what'] + (' [%s]' % b['case'] if b.get('case') else '') for b in ctx.broken_ties[:20]],
        'builder_model_drift_cases': ctx.drift,
        'source_files_differing_from_anchors_lock': ctx.drift_files, 'scale_pools_on': ctx.scale_on,
        'known_findings_seen': getattr(ctx, 'known_hit', []),
        'notes': ctx.notes,
        'other_property_observations': sorted(set('%s: %s' % (v['prop'], re.sub(r'[0-9a-f]{6,}', '#', v['msg'])[:120]) for v in ctx.violations if v['prop'] != ctx.pid))[:20],
    }
    ev = {'property_id': ctx.pid, 'tier': ctx.tier, 'seed': ctx.seed, 'level': 'proof' if has_proof else 'other',
          'coverage': cov, 'wall_s': round(ctx.wall, 2),
          'violations': len([v for v in ctx.violations if v['prop'] == ctx.pid]) + (1 if ctx.broken_ties else 0),
          'assumptions': ['the model/implementation tie is established by differential execution on the generated cases, not by proof',
                          'compiler, libstdc++, sanitizer runtimes and the Linux kernel behave as documented']}
    if not has_proof:
        cov['explanation'] = 'no Coq theorem for this property is registered yet in coq/Properties_%s.v; this run is the correspondence + spec judgement only' % ctx.pid
    # debugging runs (--no-proof) and runs against a scratch copy (VERIF_REPO) must not overwrite the real evidence
    scratch = getattr(ctx, 'no_proof', False) or ('VERIF_REPO' in os.environ and os.environ['VERIF_REPO'] != '/repo')
    d = os.path.join(VERIF, 'work', 'evidence-scratch') if scratch else os.path.join(VERIF, 'evidence')
    os.makedirs(d, exist_ok=True)
    json.dump(ev, open(os.path.join(d, '%s.json' % ctx.pid), 'w'), indent=1)

def replay(ctx, P, path):
    r = json.load(open(path))
    block = r.get('case') or r.get('first_case')
    if not block:
        print('nothing to replay in', path); return 2
    blocks = core.split_cases(block)
    cfg = r.get('config') or 'rel'
    core.build_model()
    impl = core.run_driver(cfg, blocks, 'replay')
    model = core.run_model(blocks, impl, 'replay')
    for cid, b in blocks:
        print(b)
        print('--- implementation (%s)' % cfg); print('\n'.join(l[:300] for l in impl.get(cid, [])))
        print('--- model'); print('\n'.join(l[:300] for l in model.get(cid, [])))
        hdr, keys, ops = core.ops_of_block(b)
        if hdr[2] == 'trie':
            for p, m in judges.judge_trie(hdr, keys, ops, impl.get(cid, [])):
                print('SPEC VIOLATION %s: %s' % (p, m))
    return 0

# ------------------------------------------------------------------ C19: the command-line tools
TOOLS = ['xcdat_build', 'xcdat_lookup', 'xcdat_decode', 'xcdat_prefix_search', 'xcdat_predictive_search', 'xcdat_enumerate']

def build_tools():
    import fcntl, glob, shutil, concurrent.futures as cf
    core.ensure_dirs()
    key = core.sha(core.tree_hash([os.path.join(core.REPO, 'include'), os.path.join(core.REPO, 'tools')]))[:16]
    d = os.path.join(core.WORK, 'bin', 'tools-' + key)
    def ready():
        return os.path.isdir(d) and all(os.path.exists(os.path.join(d, t)) for t in TOOLS)
    if ready():
        return d
    with open(os.path.join(core.WORK, 'bin', '.lock-tools'), 'w') as lk:
        fcntl.flock(lk, fcntl.LOCK_EX)
        if ready():
            return d
        for old in sorted(glob.glob(os.path.join(core.WORK, 'bin', 'tools-*')), key=os.path.getmtime)[:-2]:
            shutil.rmtree(old, ignore_errors=True)
        os.makedirs(d, exist_ok=True)
        def one(t):
            cmd = ['g++', '-std=c++17', '-O2', '-DNDEBUG', '-pthread', core.GUARD, '-I', os.path.join(core.REPO, 'include'),
                   '-I', os.path.join(core.REPO, 'tools'), os.path.join(core.REPO, 'tools', t + '.cpp'), '-o', os.path.join(d, t + '.tmp')]
            p = subprocess.run(cmd, stdout=subprocess.PIPE, stderr=subprocess.STDOUT, text=True)
            if p.returncode != 0:
                raise RuntimeError('tool build failed: %s\n%s' % (t, p.stdout[-2000:]))
            os.rename(os.path.join(d, t + '.tmp'), os.path.join(d, t))
        with cf.ThreadPoolExecutor(max_workers=6) as ex:
            list(ex.map(one, TOOLS))
    return d

def key_files(ctx):
    rng = ctx.rng
    out = []
    def add(desc, lines, trailing_nl=True):
        out.append((desc, lines, trailing_nl))
    add('simple', [b'b', b'a', b'ab', b'a', b'abc'])
    add('one', [b'apple'])
    add('one-no-nl', [b'apple'], False)
    add('empty-line-only', [b''])
    add('with-empty-line', [b'x', b'', b'xy', b''])
    add('high-bytes', [b'\xff', b'\x80a', b'a', b'\x7f', b'\xfe\xff', b'a'])
    add('nul-bytes', [b'a\x00b', b'a', b'\x00', b'a\x00', b'b'])
    add('tabs', [b'a\tb', b'a', b'\t'])
    add('cr', [b'a\r', b'a', b'b\r'])
    add('prefix-chain', [b'a', b'ab', b'abc', b'abcd', b'abcde'])
    big = [b'k%04d' % i for i in range(1500)] + [b'', b'x', b'ka', b'k']
    rng.shuffle(big)
    add('many-completions', big + big[:7])
    add('sorted-with-repeats', [b'a', b'a', b'b', b'b', b'b', b'c'])
    for n in range(ctx.scale(14, 80)):
        a = rng.choice([b'ab', b'abc', bytes(range(97, 123)), bytes(b for b in range(256) if b != 10)])
        lines = [gen.rand_word(rng, a, 0, rng.choice([2, 5, 9])) for _ in range(rng.choice([1, 3, 10, 40, 300]))]
        lines += [rng.choice(lines) for _ in range(rng.randint(0, 4))]      # duplicates
        rng.shuffle(lines)
        add('rand%d' % n, lines, rng.random() < 0.8)
    return out

def run_tool(exe, args, stdin=b'', timeout=60):
    p = subprocess.run([exe] + args, input=stdin, stdout=subprocess.PIPE, stderr=subprocess.PIPE, timeout=timeout)
    return p.returncode, p.stdout, p.stderr

def run_c19(ctx):
    d = build_tools()
    ctx.configs_used.add('tools(-O2 -DNDEBUG)')
    tmp = os.path.join(core.WORK, 'tmp')
    os.makedirs(tmp, exist_ok=True)
    def V(msg, desc, lines, extra=None):
        ctx.violations.append({'prop': 'C19', 'msg': msg, 'case': desc, 'block': 'KEYFILE ' + ' '.join(hexs(l) for l in lines[:200]),
                               'impl': extra or [], 'config': 'tools'})
    n = 0
    tool_cases = []
    for desc, lines, nl in key_files(ctx):
        K = sorted(set(lines))
        for t, b in ([(8, 0), (7, 1), (15, 0), (16, 1)] if ctx.tier == 'quick' else [(t, b) for t in gen.VARIANTS for b in (0, 1)]):
            n += 1
            outs = {}
            kf = os.path.join(tmp, 'c19_%d.keys' % os.getpid()); df = os.path.join(tmp, 'c19_%d.dic' % os.getpid())
            open(kf, 'wb').write(b'\n'.join(lines) + (b'\n' if nl else b''))
            if os.path.exists(df): os.unlink(df)
            try:
                bargs = [kf, df] + ([] if (t == 8 and ctx.rng.random() < 0.5) else ['-t', str(t)]) + ([] if (b == 0 and ctx.rng.random() < 0.5) else ['-b', str(b)])
                rc, so, se = run_tool(os.path.join(d, 'xcdat_build'), bargs)
                ctx.evaluations += 1
                if rc != 0 or not os.path.exists(df):
                    V('xcdat_build -t %d -b %d failed (exit %s): %s' % (t, b, rc, se[-200:]), desc, lines); continue
                if ('Number of keys: %d\n' % len(K)).encode() not in so:
                    V('xcdat_build reports %s, expected %d distinct lines' % (so.split(b'\n')[0], len(K)), desc, lines)
                # enumerate
                outs['buildout'] = b'\n'.join(so.split(b'\n')[:3]) + b'\n'
                rc, so, se = run_tool(os.path.join(d, 'xcdat_enumerate'), [df])
                outs['enum'] = so
                ctx.evaluations += 1
                rows = [r.split(b'\t', 1) for r in so.split(b'\n')[:-1]] if so else []
                if rc != 0 or any(len(r) != 2 for r in rows) or [r[1] for r in rows] != K:
                    V('xcdat_enumerate (-t %d -b %d) printed %s..., expected the %d distinct lines in ascending order' % (t, b, [r[-1][:10] for r in rows[:5]], len(K)), desc, lines, [so[:300].hex()]); continue
                ids = {r[1]: int(r[0]) for r in rows}
                if sorted(ids.values()) != list(range(len(K))):
                    V('xcdat_enumerate ids are not 0..N-1', desc, lines)
                ctx.nontrivial.add((desc, t, b, 'enum'))
                # queries: members, non-members, prefixes, extensions (no newline inside a query)
                Q = [q for q in gen.deviation_queries(K, ctx.rng, 40) if b'\n' not in q]
                qin = b'\n'.join(Q) + b'\n'
                rc, so, se = run_tool(os.path.join(d, 'xcdat_lookup'), [df], qin)
                outs['lookup'] = so
                ctx.evaluations += len(Q)
                exp = b''.join((b'%d\t%s\n' % (ids[q], q)) if q in ids else (b'-1\t%s\n' % q) for q in Q)
                if rc != 0 or so != exp:
                    V('xcdat_lookup (-t %d -b %d) output differs from the specification' % (t, b), desc, lines, [so[:300].hex(), exp[:300].hex()])
                else:
                    ctx.nontrivial.add((desc, t, b, 'lookup'))
                idq = list(range(len(K))) + [len(K), len(K) + 5]
                rc, so, se = run_tool(os.path.join(d, 'xcdat_decode'), [df], ('\n'.join(map(str, idq)) + '\n').encode())
                outs['decode'] = so
                ctx.evaluations += len(idq)
                inv = {v: k for k, v in ids.items()}
                exp = b''.join(b'%d\t%s\n' % (i, inv.get(i, b'')) for i in idq)
                if rc != 0 or so != exp:
                    V('xcdat_decode (-t %d -b %d) is not the inverse of xcdat_lookup' % (t, b), desc, lines, [so[:300].hex(), exp[:300].hex()])
                rc, so, se = run_tool(os.path.join(d, 'xcdat_prefix_search'), [df], qin)
                outs['prefix'] = so
                ctx.evaluations += len(Q)
                exp = b''
                for q in Q:
                    r = spec.spec_prefixes(K, q)
                    exp += b'%d found\n' % len(r) + b''.join(b'%d\t%s\n' % (ids[k], k) for k in r)
                if rc != 0 or so != exp:
                    V('xcdat_prefix_search (-t %d -b %d) output differs from the specification' % (t, b), desc, lines, [so[:300].hex(), exp[:300].hex()])
                else:
                    ctx.nontrivial.add((desc, t, b, 'prefix'))
                maxn = ctx.rng.choice([None, 0, 1, 3, 10, 1000, 5000]) if len(K) < 1000 else 5000
                rc, so, se = run_tool(os.path.join(d, 'xcdat_predictive_search'), [df] + (['-n', str(maxn)] if maxn is not None else []), qin)
                maxn = 10 if maxn is None else maxn
                outs['pred'] = so
                ctx.evaluations += len(Q)
                exp = b''
                for q in Q:
                    r = spec.spec_completions(K, q)
                    exp += b'%d found\n' % len(r) + b''.join(b'%d\t%s\n' % (ids[k], k) for k in r[:maxn])
                if rc != 0 or so != exp:
                    V('xcdat_predictive_search (-t %d -b %d) output differs from the specification' % (t, b), desc, lines, [so[:300].hex(), exp[:300].hex()])
                else:
                    ctx.nontrivial.add((desc, t, b, 'predictive'))
                # the Coq model of the tools (Tools.v, extracted) on the same inputs: stdout must agree byte for byte
                if not ctx.search_mode:
                    keyfile = b'\n'.join(lines) + (b'\n' if nl else b'')
                    dic = open(df, 'rb').read()
                    ids_in = ('\n'.join(map(str, idq)) + '\n').encode()
                    tcase = 'CASE tool%d tools %d %d\nDIC %s\nKEYFILE %s\nENUM\nLOOKUP %s\nDECODE %s\nPREFIX %s\nPRED %d %s\nEND\n' % (
                        n, t, b, hexs(dic), hexs(keyfile), hexs(qin), hexs(ids_in), hexs(qin), maxn, hexs(qin))
                    tool_cases.append((n, desc, lines, tcase, outs))
                if len(ctx.samples) < 3:
                    ctx.samples.append({'key_file_lines': [hexs(l) for l in lines[:10]], 't': t, 'b': b, 'queries': [hexs(q) for q in Q[:6]]})
            finally:
                for f in (kf, df):
                    if os.path.exists(f): os.unlink(f)
    ctx.count('key files x (t,b)', n)
    # model vs binaries
    if tool_cases:
        blocks = [('tool%d' % c[0], c[3]) for c in tool_cases]
        res = core.run_sharded(lambda path: [os.path.join(VERIF, 'ocaml', 'xmodel'), path], blocks, 'C19-model')
        for (k, desc, lines, _, outs) in tool_cases:
            m = res.get('tool%d' % k)
            if m is None:
                ctx.broken_ties.append({'what': 'tools model produced no transcript', 'case': desc, 'block': None}); continue
            md = dict(l.split(' ', 1) for l in m if ' ' in l)
            if md.get('build') != 'same':
                ctx.drift += 1
                ctx.broken_ties.append({'what': 'correspondence: model of xcdat_build does not reproduce the dictionary file (%s)' % md.get('build'), 'case': desc, 'block': 'KEYFILE ' + ' '.join(hexs(l) for l in lines[:100])})
            for name in ('buildout', 'enum', 'lookup', 'decode', 'prefix', 'pred'):
                if name in outs and md.get(name) != hexs(outs[name]):
                    ctx.broken_ties.append({'what': 'correspondence: stdout of the %s tool differs from the model' % name, 'case': desc,
                                            'block': 'KEYFILE ' + ' '.join(hexs(l) for l in lines[:100]),
                                            'impl_line': hexs(outs[name])[:300], 'model_line': (md.get(name) or '')[:300]})

PROPS['C19'] = {'run': run_c19}
