"""Python transliteration of coq/Spec.v plus reference answers for the component kinds.
Used (a) to judge an implementation transcript against the property statements without going through
the model (the failing-input search of DESIGN.md section 5) and (b) to classify a model/implementation
disagreement.  Keys and queries are `bytes`."""

def hexs(b):
    return b.hex() if b else '-'

def unhex(s):
    return b'' if s == '-' else bytes.fromhex(s)

def valid_keys(K):
    return len(K) > 0 and all(K[i] < K[i + 1] for i in range(len(K) - 1))

def spec_prefixes(K, q):
    return [k for k in K if q.startswith(k)]

def spec_completions(K, q):
    return [k for k in K if k.startswith(q)]

def spec_alphabet(K):
    return sorted(set(b for k in K for b in k))

def spec_mp_nodes_slow(K):
    """root + one node per non-empty prefix p.c of a key such that >= 2 keys start with p (transliteration of Spec.v)"""
    seen = set()
    for k in K:
        for i in range(1, len(k) + 1):
            seen.add(k[:i])
    n = 1
    for p in seen:
        par = p[:-1]
        if sum(1 for k in K if k.startswith(par)) >= 2:
            n += 1
    return n

def _lcp(a, b):
    n = min(len(a), len(b)); i = 0
    while i < n and a[i] == b[i]:
        i += 1
    return i

def spec_mp_nodes(K):
    """the same number in O(total length): K sorted and distinct. A key's path ends at depth
    d = min(|k|, l+1) where l is the longest prefix it shares with a neighbour; nodes = 1 + sum (d_i - lcp(k_{i-1},k_i))"""
    if len(K) <= 1:
        return 1
    lc = [0] + [_lcp(K[i - 1], K[i]) for i in range(1, len(K))] + [0]
    n = 1
    for i, k in enumerate(K):
        l = max(lc[i], lc[i + 1])
        n += min(len(k), l + 1) - lc[i]
    return n

def parse_results(fields):
    out = []
    for f in fields:
        i, h = f.split(':')
        out.append((int(i), unhex(h)))
    return out

class TrieJudge:
    """Judges the implementation's transcript lines of one trie case against the spec.
    Returns a list of (property_id, message)."""
    def __init__(self, K, req_bin):
        self.K = list(K)
        self.req_bin = req_bin
        self.ids = {}      # key -> id as reported by any op
        self.viol = []

    def note_id(self, k, i, prop, where):
        if k not in self.Kset:
            return
        if k in self.ids and self.ids[k] != i:
            self.viol.append((prop, 'key %s reported with id %d by %s but %d elsewhere' % (hexs(k), i, where, self.ids[k])))
        self.ids.setdefault(k, i)

    def judge(self, ops, lines):
        """ops: list of op lines (after the K lines); lines: impl output lines for the case (after 'build ok')"""
        K = self.K
        self.Kset = set(K)
        n = len(K)
        V = self.viol
        # first pass: collect ids from lookups of members and from enumeration
        pairs = list(zip(ops, lines))
        for op, ln in pairs:
            o = op.split(); l = ln.split()
            if not l:
                continue
            if o[0] == 'L' and l[0] == 'l' and l[1] not in ('-', 'exc') and not l[1].startswith(('other', 'fault')):
                q = unhex(o[1])
                if q in self.Kset:
                    self.note_id(q, int(l[1]), 'C01', 'lookup')
            if o[0] in ('E', 'EC') and l[0] in ('e', 'ec') and len(l) >= 1 and (len(l) == 1 or ':' in l[1]):
                for i, k in parse_results(l[1:]):
                    self.note_id(k, i, 'C03', 'enumerate')
        for op, ln in pairs:
            o = op.split(); l = ln.split()
            if not l:
                V.append(('C07', 'no output for op %s' % op)); continue
            kind = o[0]
            bad_outcome = len(l) > 1 and (l[1] == 'exc' or l[1].startswith('other') or l[1].startswith('fault'))
            if kind == 'L':
                q = unhex(o[1])
                if bad_outcome:
                    V.append(('C02', 'lookup(%s) -> %s' % (hexs(q), ln))); continue
                got = None if l[1] == '-' else int(l[1])
                if (got is not None) != (q in self.Kset):
                    V.append(('C02', 'lookup(%s) = %s but membership is %s' % (hexs(q), l[1], q in self.Kset)))
                elif got is not None and not (0 <= got < n):
                    V.append(('C01', 'lookup(%s) = %d not in [0,%d)' % (hexs(q), got, n)))
            elif kind in ('D', 'DI'):
                i = int(o[-1])
                if bad_outcome:
                    V.append(('C01', 'decode(%d) -> %s' % (i, ln))); continue
                got = unhex(l[1])
                if i >= n:
                    if got != b'':
                        V.append(('C01', 'decode(%d) with %d keys = %s, expected empty' % (i, n, hexs(got))))
                else:
                    inv = {v: k for k, v in self.ids.items()}
                    if i in inv and inv[i] != got:
                        V.append(('C01', 'decode(%d) = %s but lookup/enumerate give id %d to %s' % (i, hexs(got), i, hexs(inv[i]))))
                    if got not in self.Kset:
                        V.append(('C01', 'decode(%d) = %s is not a key' % (i, hexs(got))))
            elif kind in ('P', 'PC', 'R', 'RC', 'E', 'EC'):
                prop = {'P': 'C04', 'PC': 'C04', 'R': 'C05', 'RC': 'C05', 'E': 'C03', 'EC': 'C03'}[kind]
                q = unhex(o[1]) if len(o) > 1 else b''
                if bad_outcome:
                    V.append((prop, '%s -> %s' % (op, ln))); continue
                got = parse_results(l[1:])
                exp = spec_prefixes(K, q) if kind in ('P', 'PC') else spec_completions(K, q)
                if [k for _, k in got] != exp:
                    V.append((prop, '%s: reported %s expected %s' % (op, [hexs(k) for _, k in got], [hexs(k) for k in exp])))
                else:
                    for i, k in got:
                        if k in self.ids and self.ids[k] != i:
                            V.append((prop, '%s: key %s reported with id %d, lookup/enumerate say %d' % (op, hexs(k), i, self.ids[k])))
                        if not (0 <= i < n):
                            V.append((prop, '%s: id %d out of range' % (op, i)))
            elif kind == 'STATS':
                if bad_outcome or len(l) < 10:
                    V.append(('C17', 'stats -> %s' % ln)); continue
                nk, asz, ml, bm, nn, nu, nf, tl, mem = map(int, l[1:10])
                if nk != n: V.append(('C17', 'num_keys %d != %d' % (nk, n)))
                if asz != len(spec_alphabet(K)): V.append(('C17', 'alphabet_size %d != %d' % (asz, len(spec_alphabet(K)))))
                if ml != max(len(k) for k in K): V.append(('C17', 'max_length %d != %d' % (ml, max(len(k) for k in K))))
                eb = 1 if (self.req_bin or any(0 in k for k in K)) else 0
                if bm != eb: V.append(('C17', 'bin_mode %d != %d' % (bm, eb)))
                if nn + nf != nu: V.append(('C17', 'num_nodes %d + num_free_units %d != num_units %d' % (nn, nf, nu)))
                if tl < 1: V.append(('C17', 'tail_length %d < 1' % tl))
                if True:
                    mp = spec_mp_nodes(K)
                    if nn != mp: V.append(('C17', 'num_nodes %d != minimal-prefix trie nodes %d' % (nn, mp)))
        # ids must be a bijection onto [0,n) when every key was seen
        if len(self.ids) == n:
            if sorted(self.ids.values()) != list(range(n)):
                V.append(('C01', 'ids are not a bijection onto [0,%d): %s' % (n, sorted(self.ids.values())[:20])))
        return V

# ---------------- components ----------------
def bv_expected(bits):
    """bits: list of 0/1 -> (allget, allrank, allselect)"""
    ranks, c = [0], 0
    sel = []
    for i, b in enumerate(bits):
        if b:
            sel.append(i)
        c += b
        ranks.append(c)
    return ''.join(map(str, bits)), ranks, sel

def apply_bv_ops(ops):
    """abstract semantics of the builder ops (PUSH/SET/RESIZE): the evident bit list"""
    bits = []
    for op in ops:
        o = op.split()
        if o[0] == 'PUSH':
            bits.extend(int(c) for c in o[1])
        elif o[0] == 'SET':
            bits[int(o[1])] = int(o[2])
        elif o[0] == 'RESIZE':
            n = int(o[1])
            bits = bits[:n] + [0] * (n - len(bits))
    return bits

def tail_probe_expected(s, q):
    """(match, prefix_match) of probe q against the stored suffix s (s == b'' is the reserved slot 0)"""
    m = 1 if q == s else 0
    pm = len(s) if q.startswith(s) else None
    return m, pm
