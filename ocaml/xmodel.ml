(* xmodel.ml: runs the extracted Coq model (xmodel_core.ml) on a case file and prints the transcript
   defined in harness/PROTOCOL.md.  Hand-written glue: hex/decimal I/O and op dispatch only.
   usage: xmodel <casefile> [<driver transcript>]
   When a driver transcript is given, the 512-byte code table (the std::sort oracle) of a trie case is
   taken from the implementation's `file` line of the same case. Lines starting with '@' are model-only
   observations (certificates, queries on the implementation's own structure). *)
open Xmodel_core
let docert = (try Sys.getenv "XMODEL_CERT" <> "0" with Not_found -> true)

(* ---------- numbers ---------- *)
let rec pos_of_i64 (i : int64) : positive =
  if i = 1L then XH
  else
    let r = pos_of_i64 (Int64.shift_right_logical i 1) in
    if Int64.logand i 1L = 1L then XI r else XO r
let n_of_i64 i = if i = 0L then N0 else Npos (pos_of_i64 i)
let rec i64_of_pos = function
  | XH -> 1L
  | XO p -> Int64.shift_left (i64_of_pos p) 1
  | XI p -> Int64.logor (Int64.shift_left (i64_of_pos p) 1) 1L
let i64_of_n = function N0 -> 0L | Npos p -> i64_of_pos p
let n_of_int i = n_of_i64 (Int64.of_int i)
let int_of_n n = Int64.to_int (i64_of_n n)
let string_of_n n = Printf.sprintf "%Lu" (i64_of_n n)
let n_of_string s = n_of_i64 (Int64.of_string ("0u" ^ s))
let rec nat_of_int i = if i <= 0 then O else S (nat_of_int (i - 1))

(* ---------- hex ---------- *)
let hexdig = "0123456789abcdef"
let hex_of_bytes (l : n list) : string =
  match l with
  | [] -> "-"
  | _ ->
    let b = Buffer.create 64 in
    List.iter (fun x -> let v = int_of_n x land 255 in
                Buffer.add_char b hexdig.[v lsr 4]; Buffer.add_char b hexdig.[v land 15]) l;
    Buffer.contents b
let hv c = match c with
  | '0'..'9' -> Char.code c - 48 | 'a'..'f' -> Char.code c - 87 | 'A'..'F' -> Char.code c - 55
  | _ -> failwith "bad hex"
let bytes_of_hex (s : string) : n list =
  if s = "-" then [] else begin
    let r = ref [] in
    let len = String.length s / 2 in
    for i = len - 1 downto 0 do
      r := n_of_int (hv s.[2*i] * 16 + hv s.[2*i+1]) :: !r
    done; !r end

let exc_or_fault = function
  | Exc _ -> "exc"
  | Fault OobArr -> "fault:oob-array" | Fault OobQuery -> "fault:oob-query" | Fault OobKey -> "fault:oob-key"
  | Fault ShiftTooWide -> "fault:shift" | Fault NullDeref -> "fault:null" | Fault OutOfFuel -> "fault:fuel"
  | Fault BadState -> "fault:state"
  | Ok _ -> "ok"

let out = Buffer.create (1 lsl 20)
let pr fmt = Printf.ksprintf (fun s -> Buffer.add_string out s; Buffer.add_char out '\n') fmt
let flush_out () = print_string (Buffer.contents out); Buffer.clear out

let variant_of = function "7" -> V7 | "8" -> V8 | "15" -> V15 | "16" -> V16 | s -> failwith ("variant " ^ s)
let bool_of = function "1" -> true | "0" -> false | s -> failwith ("bool " ^ s)
let b01 b = if b then "1" else "0"
let words s = List.filter (fun x -> x <> "") (String.split_on_char ' ' s)
let comma l = match l with [] -> "-" | _ -> String.concat "," l

(* ---------- case reading ---------- *)
type case = { id : string; kind : string; args : string list; body : string list }
let read_cases (path : string) : case list =
  let ic = open_in path in
  let cases = ref [] and cur = ref None in
  (try while true do
      let l = input_line ic in
      let l = String.trim l in
      if l = "" || l.[0] = '#' then ()
      else match words l, !cur with
        | "CASE" :: id :: kind :: args, _ -> cur := Some ({ id; kind; args; body = [] })
        | ["END"], Some c -> cases := { c with body = List.rev c.body } :: !cases; cur := None
        | _, Some c -> cur := Some { c with body = l :: c.body }
        | _, None -> ()
    done with End_of_file -> ());
  close_in ic; List.rev !cases

(* implementation `file` lines per case id, from a driver transcript *)
let impl_files : (string, string) Hashtbl.t = Hashtbl.create 64
let read_transcript path =
  let ic = open_in path in
  let cur = ref "" in
  (try while true do
      let l = input_line ic in
      if String.length l > 5 && String.sub l 0 5 = "case " then cur := String.sub l 5 (String.length l - 5)
      else if String.length l > 5 && String.sub l 0 5 = "file " && not (Hashtbl.mem impl_files !cur) then
        Hashtbl.add impl_files !cur (String.sub l 5 (String.length l - 5))
    done with End_of_file -> ());
  close_in ic

(* ---------- trie cases ---------- *)
let results_str (l : (n * key) list) =
  String.concat "" (List.map (fun (i, k) -> " " ^ string_of_n i ^ ":" ^ hex_of_bytes k) l)

type slot = SNone | SPfx of pfx_it | SPred of pred_it

let rec firstn_int k l = if k <= 0 then [] else match l with [] -> [] | x :: t -> x :: firstn_int (k-1) t

let table_of_file (hex : string) : n list option =
  (* tag 4 + num_keys 8 + max_length 8, then 512 bytes *)
  if String.length hex < 2 * (20 + 512) then None
  else Some (bytes_of_hex (String.sub hex 40 1024))

let run_trie_ops (prefix : string) (v : variant) (built : trie) (ops : string list) =
  let pr' fmt = Printf.ksprintf (fun s -> pr "%s%s" prefix s) fmt in
  let cur = ref built in
  let bytes_memo = ref None in
  let bytes_of_built () = match !bytes_memo with
    | Some b -> b | None -> let b = save v built in bytes_memo := Some b; b in
  let slots_ref = ref [] and bufs_ref = ref [] in
  (* one step of the History.v state machine (the function the C13 theorem is about) *)
  let hop name op =
    match hstep v { h_trie = !cur; h_slots = !slots_ref; h_bufs = !bufs_ref } op with
    | Ok (st, o) ->
      cur := st.h_trie; slots_ref := st.h_slots; bufs_ref := st.h_bufs;
      (match o with
       | OLookup (Some i) -> pr' "%s %s" name (string_of_n i)
       | OLookup None -> pr' "%s -" name
       | OKey k -> pr' "%s %s" name (hex_of_bytes k)
       | ONext (Some (i, k)) -> pr' "%s 1 %s %s" name (string_of_n i) (hex_of_bytes k)
       | ONext None -> pr' "%s 0" name
       | ORead (i, k) -> pr' "%s %s %s" name (string_of_n i) (hex_of_bytes k)
       | OUnit -> pr' "%s ok" name)
    | r -> pr' "%s %s" name (exc_or_fault r) in
  let show_list name r = match r with
    | Ok l -> pr' "%s%s" name (results_str l)
    | r -> pr' "%s %s" name (exc_or_fault r) in
  List.iter (fun line ->
    match words line with
    | ["STATS"] ->
      let p = !cur in
      pr' "stats %s %s %s %s %s %s %s %s %s" (string_of_n (t_num_keys p)) (string_of_n (t_alphabet_size p))
        (string_of_n (t_max_length p)) (b01 (t_bin_mode p)) (string_of_n (t_num_nodes p))
        (string_of_n (t_num_units p)) (string_of_n (t_num_free_units p)) (string_of_n (t_tail_length p))
        (string_of_n (memory_in_bytes v p))
    | ["FILE"] ->
      let b = save v !cur in
      let n = List.length b in
      pr' "save %d %d" n n; pr' "file %s" (hex_of_bytes b)
    | ["L"; q] -> hop "l" (HLookup (bytes_of_hex q))
    | ["D"; i] -> hop "d" (HDecode (n_of_string i))
    | ["P"; q] -> show_list "p" (prefix_search !cur (bytes_of_hex q))
    | ["PC"; q] -> show_list "pc" (prefix_search !cur (bytes_of_hex q))
    | ["R"; q] -> show_list "r" (predictive_search !cur (bytes_of_hex q))
    | ["RC"; q] -> show_list "rc" (predictive_search !cur (bytes_of_hex q))
    | ["E"] -> show_list "e" (enumerate !cur)
    | ["EC"] -> show_list "ec" (enumerate !cur)
    | ["USE"; "built"] -> cur := built; slots_ref := []; pr' "use ok"
    | ["USE"; "load"] -> cur := built; hop "use" HSaveLoad
    | "USE" :: ("mmap" | "mmapend") :: _ -> cur := built; hop "use" HSaveMmap
    | ["IP"; s; q] -> hop "ip" (HMkPrefix (n_of_string s, bytes_of_hex q))
    | ["IR"; s; q] -> hop "ir" (HMkPred (n_of_string s, bytes_of_hex q))
    | ["IE"; s] -> hop "ie" (HMkEnum (n_of_string s))
    | ["IDP"; s] -> hop "idp" (HDefPrefix (n_of_string s))
    | ["IDR"; s] -> hop "idr" (HDefPred (n_of_string s))
    | ["IC"; a; b] | ["IM"; a; b] ->
      (* an iterator is a value of the model: a copy (or the target of a move) is a second binding of the same record *)
      let op = String.lowercase_ascii (List.hd (words line)) in
      (match assoc (n_of_string a) !slots_ref with
       | Some sl -> slots_ref := (n_of_string b, sl) :: !slots_ref; pr' "%s ok" op
       | None -> pr' "error empty-slot %s" line)
    | ["N"; s] -> hop "n" (HNext (n_of_string s))
    | ["NI"; s] ->    (* same abstract step; the keyword is not printed *)
      (match hstep v { h_trie = !cur; h_slots = !slots_ref; h_bufs = !bufs_ref } (HNext (n_of_string s)) with
       | Ok (st, o) ->
         cur := st.h_trie; slots_ref := st.h_slots; bufs_ref := st.h_bufs;
         (match o with ONext (Some (i, _)) -> pr' "ni 1 %s" (string_of_n i) | _ -> pr' "ni 0")
       | r -> pr' "ni %s" (exc_or_fault r))
    | ["G"; s] -> hop "g" (HRead (n_of_string s))
    | ["DI"; b; i] -> hop "di" (HDecodeInto (n_of_string b, n_of_string i))
    | ["MV"] -> hop "mv" HMove
    | ["TRUNC"; k] ->
      let b = firstn_int (int_of_string k) (bytes_of_built ()) in
      pr' "trunc %s" (exc_or_fault (load v b))
    | ["TRUNCALL"] ->
      let b = bytes_of_built () in
      let size = List.length b in
      let bad = ref [] in
      for k = size - 1 downto 0 do
        match load v (firstn_int k b) with Exc _ -> () | _ -> bad := string_of_int k :: !bad
      done;
      pr' "truncall %d %s" size (comma !bad)
    | ["PIPELOAD"] ->      (* how the bytes reach load (a regular file, a pipe) does not occur in the model *)
      (match load v (save v !cur) with
       | Ok p -> pr' "pipeload %s" (if save v p = save v !cur then "same" else "differs")
       | r -> pr' "pipeload %s" (exc_or_fault r))
    | ["RELOADHERE"] ->    (* load (save P) = P (C06_load_save): the object holds the same structure, the iterator slots stay *)
      (match load v (save v !cur) with
       | Ok p -> cur := p; pr' "reloadhere ok"
       | r -> pr' "reloadhere %s" (exc_or_fault r))
    | ["SAVEOVER"; _] ->  (* the previous content of the target does not matter: the file is replaced *)
      (match save_dev v !cur (File [N0]) [] true with
       | Ok (cnt, b) -> pr' "saveover ret:%s size:%d same:1" (string_of_n cnt) (List.length b)
       | r -> pr' "saveover %s" (exc_or_fault r))
    | ["LIMIT"; k] ->     (* Stream.save_dev: the visitor's write calls against a device of capacity k *)
      (match save_dev v !cur (File []) (sched_cap (save_chunks v !cur) (n_of_string k)) true with
       | Ok (cnt, _) -> pr' "limit ret:%s size:%s load:ok" (string_of_n cnt) (string_of_n cnt)
       | r -> pr' "limit %s" (exc_or_fault r))
    | ["LIMITT"; k] ->     (* a transient refusal is still a refused write: save must throw *)
      (match save_dev v !cur (File []) (sched_transient (save_chunks v !cur) (n_of_string k)) true with
       | Ok (cnt, _) -> pr' "limitt ret:%s size:%s load:ok" (string_of_n cnt) (string_of_n cnt)
       | r -> pr' "limitt %s" (exc_or_fault r))
    | ["XLRO"] -> pr' "xlro %s" (exc_or_fault (load v (save v !cur)))
    | ["SAVEBAD"; w] -> pr' "savebad %s" (exc_or_fault (save_dev v !cur (if w = "full" then File [] else NoParent) (sched_cap (save_chunks v !cur) N0) true))
    | ["LIMITALL"] ->
      let size = List.length (bytes_of_built ()) in
      let bad = ref [] in
      for k = size - 1 downto 0 do
        match fs_save v !cur (File []) (Some (n_of_int k)) with Exc _ -> () | _ -> bad := string_of_int k :: !bad
      done;
      pr' "limitall %d %s" size (comma !bad)
    | ["DEVFULL"] -> pr' "devfull %s" (exc_or_fault (save_dev v !cur (File []) (sched_cap (save_chunks v !cur) N0) true))
    | ["XL"; w] -> pr' "xl %s" (exc_or_fault (load (variant_of w) (save v !cur)))
    | ["XM"; w] -> pr' "xm %s" (exc_or_fault (mmap (variant_of w) (save v !cur)))
    | ["TID"] -> (match get_type_id (save v !cur) with
        | Ok t -> pr' "tid %s" (string_of_n t) | r -> pr' "tid %s" (exc_or_fault r))
    | ["BADPATH"; fn; what] ->
      (* every path that cannot be opened is one of the three unopenable nodes of the model *)
      let node = match what with "missing" -> Missing | "dir" -> Dir | _ -> NoParent in
      (match fn with
       | "load" -> pr' "badpath %s" (exc_or_fault (fs_load v node))
       | "tid" -> pr' "badpath %s" (exc_or_fault (fs_type_id node))
       | _ -> pr' "badpath %s" (exc_or_fault (fs_save v !cur node None)))
    | ["MEM"] -> pr' "mem %s" (string_of_n (memory_in_bytes v !cur))
    | ["SAVE"] -> pr' "save %d" (List.length (save v !cur))
    | _ -> pr' "error unknown-op %s" line) ops

let spec_ok keys = valid_keys keys
let split_keys body =
  let rec go acc = function
    | l :: t when String.length l >= 2 && String.sub l 0 2 = "K " ->
      go (bytes_of_hex (String.trim (String.sub l 2 (String.length l - 2))) :: acc) t
    | rest -> (List.rev acc, rest) in
  go [] body

(* dictionaries with more keys than this are not rebuilt by the (slow, list-based) builder model: the model
   parses the implementation's own file instead; the certificate check (cert_check) is what ties it to K *)
let build_max = (try int_of_string (Sys.getenv "XMODEL_BUILD_MAX") with _ -> 30000)
let do_build (c : case) v bin keys =
  match Hashtbl.find_opt impl_files c.id with
  | Some hex when (List.length keys > build_max
                   || List.exists (fun k -> List.compare_length_with k 400 > 0) keys && List.length keys > 1) && spec_ok keys ->
    pr "@big parsed-from-implementation-file";
    load v (bytes_of_hex hex)
  | Some hex -> build v (match table_of_file hex with Some t -> t | None -> own_table keys) keys bin
  | None -> build v (own_table keys) keys bin

(* certificate (DESIGN.md 4.2): the logical content of the implementation's file reassembles to the same bytes
   and is well formed for K *)
let emit_cert (c : case) v keys =
  if docert then
    match Hashtbl.find_opt impl_files c.id with
    | Some hex ->
      let ib = bytes_of_hex hex in
      (match load v ib with
       | Ok p0 -> pr "@cert %s" (if cert_check v save p0 ib keys then "ok" else "FAIL")
       | r -> pr "@cert FAIL load %s" (exc_or_fault r))
    | None -> ()

let case_trie (c : case) =
  match c.args with
  | [vs; bs; _cont] ->
    let v = variant_of vs and bin = bool_of bs in
    let keys, ops = split_keys c.body in
    (match do_build c v bin keys with
     | Ok p ->
       pr "build ok";
       run_trie_ops "" v p ops;
       (* model-only: the implementation's own structure, parsed by the model's load *)
       (match Hashtbl.find_opt impl_files c.id with
        | Some hex ->
          let ib = bytes_of_hex hex in
          emit_cert c v keys;
          if ib <> save v p then begin
            pr "@drift builder-bytes-differ";
            (match load v ib with
             | Ok ip -> run_trie_ops "@i " v ip (List.filter (fun l -> match words l with
                 | ("L"|"D"|"P"|"PC"|"R"|"RC"|"E"|"EC"|"STATS") :: _ -> true | _ -> false) ops)
             | r -> pr "@i load %s" (exc_or_fault r))
          end
        | None -> ())
     | r -> pr "build %s" (exc_or_fault r))
  | _ -> pr "error bad-case-args"

let case_conc (c : case) =
  match c.args with
  | [vs; bs; src; nth] ->
    let v = variant_of vs and bin = bool_of bs in
    let keys, ops = split_keys c.body in
    (match do_build c v bin keys with
     | Ok p0 ->
       pr "build ok";
       pr "file %s" (hex_of_bytes (save v p0));
       emit_cert c v keys;
       let p = match src with
         | "load" -> (match load v (save v p0) with Ok p -> p | _ -> p0)
         | "mmap" -> (match mmap v (save v p0) with Ok p -> p | _ -> p0)
         | _ -> p0 in
       for k = 0 to int_of_string nth - 1 do
         let mine = List.filter_map (fun l -> match words l with
             | "T" :: ks :: rest when int_of_string ks = k -> Some (String.concat " " rest) | _ -> None) ops in
         run_trie_ops (Printf.sprintf "t %d " k) v p mine
       done
     | r -> pr "build %s" (exc_or_fault r))
  | _ -> pr "error bad-case-args"

(* ---------- components ---------- *)
let bits_of_string s = List.init (String.length s) (fun i -> s.[i] = '1')

let case_bv (c : case) =
  let rank, sel = match c.args with [r; s] -> bool_of r, bool_of s | _ -> true, true in
  let b = ref (Ok bvb_empty) and bv = ref None in
  let withb f = match !b with Ok x -> f x | _ -> () in
  List.iter (fun line -> match words line with
    | ["PUSH"; s] -> String.iter (fun ch -> b := bind !b (fun x -> bvb_push_back x (ch = '1'))) s
    | ["SET"; i; x] -> b := bind !b (fun y -> bvb_set_bit y (n_of_string i) (bool_of x))
    | ["RESIZE"; k] -> b := bind !b (fun y -> Ok (bvb_resize y (n_of_string k)))
    | ["BGET"; i] -> (match bind !b (fun y -> bvb_get y (n_of_string i)) with
        | Ok x -> pr "bget %s" (b01 x) | r -> pr "bget %s" (exc_or_fault r))
    | ["BSIZE"] -> withb (fun y -> pr "bsize %s" (string_of_n y.bb_size))
    | ["BUILD"] -> (match bind !b (fun y -> bv_build y rank sel) with
        | Ok v -> bv := Some v; pr "bv %s" (hex_of_bytes (enc_bv v))
        | r -> pr "bv %s" (exc_or_fault r))
    | ["GET"; i] -> (match !bv with Some v -> (match bv_get v (n_of_string i) with
        | Ok x -> pr "get %s" (b01 x) | r -> pr "get %s" (exc_or_fault r)) | None -> pr "error not-built %s" line)
    | ["RANK"; i] -> (match !bv with Some v -> (match bv_rank v (n_of_string i) with
        | Ok x -> pr "rank %s" (string_of_n x) | r -> pr "rank %s" (exc_or_fault r)) | None -> pr "error not-built %s" line)
    | ["SELECT"; i] -> (match !bv with Some v -> (match bv_select v (n_of_string i) with
        | Ok x -> pr "select %s" (string_of_n x) | r -> pr "select %s" (exc_or_fault r)) | None -> pr "error not-built %s" line)
    | ["ALL"] -> (match !bv with
        | Some v ->
          let size = int_of_n v.bv_size and ones = int_of_n v.bv_ones in
          let bb = Buffer.create size in
          for i = 0 to size - 1 do
            Buffer.add_string bb (match bv_get v (n_of_int i) with Ok x -> b01 x | _ -> "F") done;
          pr "allget %s" (if size = 0 then "-" else Buffer.contents bb);
          if rank then
            pr "allrank %s" (comma (List.init (size + 1) (fun i -> match bv_rank v (n_of_int i) with
                | Ok x -> string_of_n x | r -> exc_or_fault r)))
          else pr "allrank -";
          if rank && sel then
            pr "allselect %s" (comma (List.init ones (fun i -> match bv_select v (n_of_int i) with
                | Ok x -> string_of_n x | r -> exc_or_fault r)))
          else pr "allselect -"
        | None -> pr "error not-built %s" line)
    | _ -> pr "error unknown-op %s" line) c.body

let case_cv (c : case) =
  let vs = ref [] and cv = ref None in
  List.iter (fun line -> match words line with
    | ["V"; x] -> vs := n_of_string x :: !vs
    | ["CT"; _] -> ()      (* the container's element type does not occur in the model *)
    | ["BUILD"] -> (match cv_build (List.rev !vs) with
        | Ok v -> cv := Some v; pr "cv %s" (hex_of_bytes (enc_cv v)) | r -> pr "cv %s" (exc_or_fault r))
    | ["ALL"] -> (match !cv with Some v ->
        pr "all %s" (comma (List.init (int_of_n v.cv_size) (fun i -> match cv_get v (n_of_int i) with
            | Ok x -> string_of_n x | r -> exc_or_fault r))) | None -> pr "error not-built %s" line)
    | ["GET"; i] -> (match !cv with Some v -> (match cv_get v (n_of_string i) with
        | Ok x -> pr "get %s" (string_of_n x) | r -> pr "get %s" (exc_or_fault r)) | None -> pr "error not-built %s" line)
    | _ -> pr "error unknown-op %s" line) c.body

let case_bc (c : case) =
  let v = variant_of (List.hd c.args) in
  let us = ref [] and bc = ref None in
  List.iter (fun line -> match words line with
    | ["U"; b; ch; lf] -> us := (n_of_string b, n_of_string ch, bool_of lf) :: !us
    | ["BUILD"] ->
      let l = List.rev !us in
      (match bc_build v (List.map (fun (b, ch, _) -> (b, ch)) l) (List.map (fun (_, _, lf) -> lf) l) with
       | Ok d -> bc := Some d; pr "bc %s" (hex_of_bytes (enc_bc d)) | r -> pr "bc %s" (exc_or_fault r))
    | ["ALL"] -> (match !bc with
        | Some d ->
          let nu = int_of_n (bc_num_units d) in
          pr "counts %s %s %s %s" (string_of_n (bc_num_units d)) (string_of_n (bc_num_free_units d))
            (string_of_n (bc_num_nodes d)) (string_of_n (bc_num_leaves d));
          let leaf i = match bc_is_leaf d (n_of_int i) with Ok x -> x | _ -> false in
          pr "allleaf %s" (if nu = 0 then "-" else String.concat "" (List.init nu (fun i -> match bc_is_leaf d (n_of_int i) with
              | Ok x -> b01 x | _ -> "F")));
          let sr = function Ok x -> string_of_n x | r -> exc_or_fault r in
          pr "allcheck %s" (comma (List.init nu (fun i -> sr (bc_check d (n_of_int i)))));
          pr "allbase %s" (comma (List.init nu (fun i -> if leaf i then "-" else sr (bc_base d (n_of_int i)))));
          pr "alllink %s" (comma (List.init nu (fun i -> if leaf i then sr (bc_link d (n_of_int i)) else "-")))
        | None -> pr "error not-built %s" line)
    | _ -> pr "error unknown-op %s" line) c.body

let case_tail (c : case) =
  let bin = bool_of (List.hd c.args) in
  let sufs = ref [] and order = ref [] and tv = ref None in
  List.iter (fun line -> match words line with
    | ["WIN"] -> ()        (* how the caller stores the suffixes does not occur in the model *)
    | ["S"; h; np] ->
      let np' = n_of_string np in
      (match tail_set_suffix !sufs (bytes_of_hex h) np' with
       | Ok s -> sufs := s; order := np :: !order
       | _ -> order := np :: !order; pr "s exc")
    | ["BUILD"] -> (match tail_complete bin !sufs with
        | Ok (t, asg) ->
          tv := Some t; pr "tail %s" (hex_of_bytes (enc_tail t));
          let find np = List.fold_left (fun acc (a, b) -> if string_of_n a = np then Some b else acc) None asg in
          pr "pos%s" (String.concat "" (List.map (fun np -> " " ^ np ^ ":" ^
              (match find np with Some t -> string_of_n t | None -> "?")) (List.rev !order)))
        | r -> pr "tail %s" (exc_or_fault r))
    | ["M"; h; tp] -> (match !tv with Some t -> (match t_match t (bytes_of_hex h) (n_of_string tp) with
        | Ok x -> pr "m %s" (b01 x) | r -> pr "m %s" (exc_or_fault r)) | None -> pr "error not-built %s" line)
    | ["PM"; h; tp] -> (match !tv with Some t -> (match t_prefix_match t (bytes_of_hex h) (n_of_string tp) with
        | Ok (Some x) -> pr "pm %s" (string_of_n x) | Ok None -> pr "pm -" | r -> pr "pm %s" (exc_or_fault r)) | None -> pr "error not-built %s" line)
    | ["DEC"; tp] -> (match !tv with Some t -> (match t_decode t (n_of_string tp) with
        | Ok k -> pr "dec %s" (hex_of_bytes k) | r -> pr "dec %s" (exc_or_fault r)) | None -> pr "error not-built %s" line)
    | _ -> pr "error unknown-op %s" line) c.body

(* kind `tools`: CASE <id> tools <variant> <bin>; body: KEYFILE <hex>, DIC <hex of the file xcdat_build wrote>,
   then ENUM | LOOKUP <hex stdin> | DECODE <hex stdin> | PREFIX <hex stdin> | PRED <n> <hex stdin>.
   Prints what the model of each tool writes to stdout (hex). *)
let case_tools (c : case) =
  match c.args with
  | [vs; bs] ->
    let v = variant_of vs and b = bool_of bs in
    let dic = ref [] in
    let outr name r = match r with Ok o -> pr "%s %s" name (hex_of_bytes o) | r -> pr "%s %s" name (exc_or_fault r) in
    List.iter (fun line -> match words line with
      | ["DIC"; h] -> dic := bytes_of_hex h
      | ["KEYFILE"; h] ->
        let tbl = match table_of_file (hex_of_bytes !dic) with Some t -> t | None -> [] in
        (match tool_build v b tbl (bytes_of_hex h) with
         | Ok (d, _) -> pr "build %s" (if d = !dic then "same" else "diff")
         | r -> pr "build %s" (exc_or_fault r));
        outr "buildout" (tool_build_stdout v b tbl (bytes_of_hex h))
      | ["ENUM"] -> outr "enum" (tool_enumerate !dic)
      | ["LOOKUP"; h] -> outr "lookup" (tool_lookup !dic (bytes_of_hex h))
      | ["DECODE"; h] -> outr "decode" (tool_decode !dic (bytes_of_hex h))
      | ["PREFIX"; h] -> outr "prefix" (tool_prefix !dic (bytes_of_hex h))
      | ["PRED"; k; h] -> outr "pred" (tool_predictive !dic (bytes_of_hex h) (n_of_string k))
      | _ -> pr "error unknown-op %s" line) c.body
  | _ -> pr "error bad-case-args"

let intr = (try Sys.getenv "XMODEL_INTR" = "1" with Not_found -> false)
let case_words (c : case) =
  let pc = if intr then popcount_intr else popcount in
  let ms = if intr then msb_intr else msb in
  let sw = if intr then select_in_word_intr else select_in_word in
  List.iter (fun line -> match words line with
    | ["W"; x; k] ->
      let x = n_of_string x and k = n_of_string k in
      let p = pc x in
      pr "w %s %s %s" (string_of_n p) (string_of_n (ms x))
        (if Int64.unsigned_compare (i64_of_n k) (i64_of_n p) < 0 then string_of_n (sw x k) else "-")
    | ["UL"; x; y] -> pr "ul %s" (string_of_n (uleq_step_9 (n_of_string x) (n_of_string y)))
    | ["BC"; x] -> pr "bcnt %s" (string_of_n (byte_counts (n_of_string x)))
    | ["BP"; x] -> pr "bp %s" (string_of_n (bit_position (n_of_string x)))
    | _ -> pr "error unknown-op %s" line) c.body

let () =
  let path = Sys.argv.(1) in
  if Array.length Sys.argv > 2 then read_transcript Sys.argv.(2);
  List.iter (fun c ->
    pr "case %s" c.id;
    (try
      (match c.kind with
       | "trie" -> case_trie c | "conc" -> case_conc c | "bv" -> case_bv c | "cv" -> case_cv c
       | "bc" -> case_bc c | "tail" -> case_tail c | "words" -> case_words c | "tools" -> case_tools c
       | k -> pr "error unknown-kind %s" k)
    with Stack_overflow -> pr "error stack-overflow" | Failure m -> pr "error failure %s" m);
    pr "end %s" c.id; flush_out ()) (read_cases path)
