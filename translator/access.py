#!/usr/bin/env python3
"""Regenerate coq/AccessGen.v from /repo's headers: the read-side member functions of compact_vector,
bit_vector and bc_vector_{7,8,15,16} (element access, rank, select, the DAC walks, base/check/link, counters),
translated statement by statement into the outcome monad of Base.v:

  * member reads become the model record's fields; `a[i]` on an immutable_vector is `aget` (Fault OobArr outside);
    `m_xs[j]` on a std::array of members is `lget` (Fault outside); calls go to the generated callee;
  * + - * ~ are the 64-bit wrapping operations, / and % are N.div / N.modulo, a shift by a literal < 64 is
    shl64/shr64 and by anything else shl64c/shr64c (Fault at >= 64);
  * `while (c) { .. }` becomes AccessLib.while_res over the tuple of variables the body assigns, with the fuel of
    FUEL below; `x++` inside a statement that mentions x once is that statement followed by x = x + 1;
  * a loop that contains `return` becomes AccessLib.loop_ctl (each iteration yields Next state | Done state | Ret value);
    `do { } while (c)` evaluates c after the body; a `std::string_view` parameter is a byte list (`k[i]` = kget, Fault OobQuery
    outside; `k.size()` = lenN; `k.substr(i, n)` = key_substr); `std::optional<uint64_t>` is `option N`; a
    `const std::function<void(char)>& fn` parameter makes the function return the list of bytes passed to fn, in order;
    an argument passed to a `std::uint8_t` / `char` parameter is reduced mod 256;
  * `assert(..)` is dropped (NDEBUG build); locals are 64-bit (a uint32_t counter never nears 2^32 here; the
    integer-width tie of harness/narrowing.py watches the declarations).

AccessFacts.v proves each generated function equal to the hand-written model function the theorems are about
(on well-formed structures), so a semantic change of any of these functions in the source breaks a proof.
A construct outside this subset stops the translator (exit 1 = broken obligation), as for bit_tools.
Usage: access.py <repo_include_dir> <out.v>.  Part of the trusted base (DESIGN.md section 4.3)."""
import re, sys, os

TOK = re.compile(r'(\'(?:\\.|[^\'\\])\'|0[xX][0-9a-fA-F]+(?:ULL|UL|U|LL|L)?|\d+(?:ULL|UL|U|LL|L)?|[A-Za-z_][A-Za-z_0-9]*(?:::[A-Za-z_][A-Za-z_0-9]*)*'
                 r'|<<=|>>=|\|=|\^=|&=|\+=|-=|\+\+|--|<<|>>|<=|>=|==|!=|&&|\|\||[-+*/%|&^~?:()\[\],;={}<>!.])')

class TErr(Exception):
    pass

def tokenize(s):
    out, i = [], 0
    while i < len(s):
        if s[i].isspace():
            i += 1; continue
        m = TOK.match(s, i)
        if not m:
            raise TErr('cannot tokenize at %r' % s[i:i + 40])
        out.append(m.group(1)); i = m.end()
    return out

# ---------------------------------------------------------------- class descriptions
def F(ty, code): return (ty, code)
BV = ('obj', 'bit_vector'); CV = ('obj', 'compact_vector')
CLASSES = [
  dict(file='compact_vector.hpp', cls='compact_vector', pfx='cvg_', rec='compact', cpfx=None,
       members={'m_size': F('N', 'cv_size s'), 'm_bits': F('N', 'cv_bits s'), 'm_mask': F('N', 'cv_mask s'),
                'm_chunks': F('arr', 'cv_chunks s')},
       funcs=['decompose', 'words_for', 'size', 'bits', 'operator[]']),
  dict(file='bit_vector.hpp', cls='bit_vector', pfx='bvg_', rec='bitvec', cpfx='bv_',
       members={'m_size': F('N', 'bv_size s'), 'm_num_ones': F('N', 'bv_ones s'), 'm_bits': F('arr', 'bv_words s'),
                'm_rank_hints': F('arr', 'bv_rank_hints s'), 'm_select_hints': F('arr', 'bv_sel_hints s')},
       funcs=['decompose', 'words_for', 'size', 'num_ones', 'num_blocks', 'rank_for_block', 'ranks_in_block', 'rank_in_block',
              'rank_for_word', 'select_with_hint', 'select_for_block', 'operator[]', 'rank', 'select']),
  dict(file='bc_vector_8.hpp', cls='bc_vector_8', pfx='b8g_', rec='bc8', cpfx='bc8_',
       members={'m_num_levels': F('N', 'b8_nlev s'), 'm_num_frees': F('N', 'b8_frees s'),
                'm_bytes': F(('list', 'arr'), 'b8_ints s'), 'm_nexts': F(('list', BV), 'b8_nexts s'),
                'm_links': F(CV, 'b8_links s'), 'm_leaves': F(BV, 'b8_leaves s')},
       funcs=['access', 'base', 'check', 'link', 'is_leaf', 'is_used', 'num_units', 'num_free_units', 'num_nodes', 'num_leaves']),
  dict(file='bc_vector_16.hpp', cls='bc_vector_16', pfx='b16g_', rec='bc8', cpfx='bc16_',
       members={'m_num_levels': F('N', 'b8_nlev s'), 'm_num_frees': F('N', 'b8_frees s'),
                'm_shorts': F(('list', 'arr'), 'b8_ints s'), 'm_nexts': F(('list', BV), 'b8_nexts s'),
                'm_links': F(CV, 'b8_links s'), 'm_leaves': F(BV, 'b8_leaves s')},
       funcs=['access', 'base', 'check', 'link', 'is_leaf', 'is_used', 'num_units', 'num_free_units', 'num_nodes', 'num_leaves']),
  dict(file='bc_vector_7.hpp', cls='bc_vector_7', pfx='b7g_', rec='bc7', cpfx='bc7_',
       members={'m_num_frees': F('N', 'b7_frees s'),
                'm_ints_l1': F('arr', 'nth 0 (b7_ints s) aempty'), 'm_ints_l2': F('arr', 'nth 1 (b7_ints s) aempty'),
                'm_ints_l3': F('arr', 'nth 2 (b7_ints s) aempty'), 'm_ints_l4': F('arr', 'nth 3 (b7_ints s) aempty'),
                'm_ranks': F(('list', 'arr'), 'b7_ranks s'), 'm_links': F(CV, 'b7_links s'), 'm_leaves': F(BV, 'b7_leaves s')},
       funcs=['access', 'base', 'check', 'link', 'is_leaf', 'is_used', 'num_units', 'num_free_units', 'num_nodes', 'num_leaves']),
  dict(file='bc_vector_15.hpp', cls='bc_vector_15', pfx='b15g_', rec='bc7', cpfx='bc15_',
       members={'m_num_frees': F('N', 'b7_frees s'),
                'm_ints_l1': F('arr', 'nth 0 (b7_ints s) aempty'), 'm_ints_l2': F('arr', 'nth 1 (b7_ints s) aempty'),
                'm_ints_l3': F('arr', 'nth 2 (b7_ints s) aempty'),
                'm_ranks': F(('list', 'arr'), 'b7_ranks s'), 'm_links': F(CV, 'b7_links s'), 'm_leaves': F(BV, 'b7_leaves s')},
       funcs=['access', 'base', 'check', 'link', 'is_leaf', 'is_used', 'num_units', 'num_free_units', 'num_nodes', 'num_leaves']),
]
TV = ('obj', 'tail_vector'); CT = ('obj', 'code_table'); BCV = ('obj', 'bcvec')
CLASSES += [
  dict(file='code_table.hpp', cls='code_table', pfx='ctg_', rec='ctable', cpfx=None,
       members={'m_max_length': F('N', 'ct_maxlen s'), 'm_table': F('arr', 'ct_table s'), 'm_alphabet': F('arr', 'ct_alpha s')},
       funcs=['alphabet_size', 'max_length', 'get_code', 'get_char']),
  dict(file='tail_vector.hpp', cls='tail_vector', pfx='tvg_', rec='tailvec', cpfx=None,
       members={'m_chars': F('arr', 'tv_chars s'), 'm_terms': F(BV, 'tv_terms s')},
       funcs=['bin_mode', 'match', 'prefix_match', 'decode', 'size']),
]
# second output file (needs the hand-written variant dispatch AccessDispatch.v in between)
TRIE = dict(file='trie.hpp', cls='trie', pfx='trg_', rec='trie', cpfx=None,
       members={'m_num_keys': F('N', 't_nkeys s'), 'm_table': F(CT, 't_table s'), 'm_terms': F(BV, 't_terms s'),
                'm_bcvec': F(BCV, 't_bc s'), 'm_tvec': F(TV, 't_tail s')},
       funcs=['get_suffix', 'npos_to_id', 'id_to_npos', 'bin_mode', 'num_keys', 'alphabet_size', 'max_length', 'num_nodes',
              'num_units', 'num_free_units', 'tail_length', 'lookup', 'decode', 'next_prefix', 'next_predictive'])
FUEL = {('tail_vector', 'match'): '(S (length v_key))', ('tail_vector', 'prefix_match'): '(S (length v_key))',
        ('tail_vector', 'decode'): '(S (N.to_nat (alen (tv_chars s))))', ('trie', 'lookup'): '(S (length v_key))',
        ('trie', 'next_predictive'): ['(S (length v_itr__m_key))', '(S (N.to_nat (bc_num_units (t_bc s))))'], ('trie', 'next_prefix'): '(S (length v_itr__m_key))', ('trie', 'decode'): '(S (N.to_nat (bc_num_units (t_bc s))))',
        ('bit_vector', 'select_for_block'): '64%nat', ('bc_vector_8', 'access'): '8%nat', ('bc_vector_16', 'access'): '4%nat'}
BIT_TOOLS = {'bit_tools::popcount': 'popcount', 'bit_tools::select_in_word': 'select_in_word',
             'bit_tools::uleq_step_9': 'uleq_step_9', 'bit_tools::msb': 'msb'}
BIT_CONSTS = {'bit_tools::ones_step_9': 'ones_step_9', 'bit_tools::ones_step_8': 'ones_step_8',
              'bit_tools::msbs_step_9': 'msbs_step_9', 'bit_tools::msbs_step_8': 'msbs_step_8'}
PFX = {c['cls']: c['pfx'] for c in CLASSES}
PFX['trie'] = 'trg_'; PFX['bcvec'] = 'bcg_'
# the variant dispatch written by hand in AccessDispatch.v
BCG = {'is_leaf': ('bool', 1), 'base': ('N', 1), 'check': ('N', 1), 'link': ('N', 1), 'is_used': ('bool', 1),
       'num_units': ('N', 0), 'num_free_units': ('N', 0), 'num_nodes': ('N', 0), 'num_leaves': ('N', 0)}
SIGS = {}     # (cls, fn) -> dict(eff, ret, nargs)
DEFAULTS = {'arr': 'aempty', BV: 'bv_empty', CV: 'cv_empty'}
for _m, (_r, _n) in BCG.items():
    SIGS[('bcvec', _m)] = dict(eff=True, ret=_r, nargs=_n, static=False, ptypes=['N'] * _n)

def gname(fn): return 'get' if fn == 'operator[]' else fn

# ---------------------------------------------------------------- expression parser -> AST
class P:
    def __init__(self, toks): self.t, self.i = toks, 0
    def peek(self, k=0): return self.t[self.i + k] if self.i + k < len(self.t) else None
    def eat(self, x=None):
        tok = self.peek()
        if tok is None or (x is not None and tok != x):
            raise TErr('expected %r got %r near %r' % (x, tok, ' '.join(self.t[max(0, self.i - 4):self.i + 4])))
        self.i += 1; return tok
    def expr(self): return self.ternary()
    def ternary(self):
        c = self.lor()
        if self.peek() == '?':
            self.eat(); a = self.expr(); self.eat(':'); b = self.ternary()
            return ('?:', c, a, b)
        return c
    def binl(self, sub, ops):
        l = sub()
        while self.peek() in ops:
            op = self.eat(); r = sub(); l = ('bin', ops[op], l, r)
        return l
    def lor(self):  return self.binl(self.land_, {'||': 'or', 'or': 'or'})
    def land_(self): return self.binl(self.bor, {'&&': 'and', 'and': 'and'})
    def bor(self):  return self.binl(self.bxor, {'|': '|'})
    def bxor(self): return self.binl(self.band, {'^': '^'})
    def band(self): return self.binl(self.eq, {'&': '&'})
    def eq(self):   return self.binl(self.rel, {'==': '==', '!=': '!='})
    def rel(self):  return self.binl(self.shift, {'<': '<', '<=': '<=', '>': '>', '>=': '>='})
    def shift(self): return self.binl(self.add, {'<<': '<<', '>>': '>>'})
    def add(self):  return self.binl(self.mul, {'+': '+', '-': '-'})
    def mul(self):  return self.binl(self.unary, {'*': '*', '/': '/', '%': '%'})
    def unary(self):
        if self.peek() == '~': self.eat(); return ('un', '~', self.unary())
        if self.peek() in ('!', 'not'): self.eat(); return ('un', '!', self.unary())
        return self.postfix()
    def args(self):
        self.eat('('); a = []
        if self.peek() != ')':
            a.append(self.expr())
            while self.peek() == ',': self.eat(); a.append(self.expr())
        self.eat(')'); return a
    def postfix(self):
        e = self.primary()
        while True:
            if self.peek() == '[':
                self.eat(); ix = self.expr(); self.eat(']'); e = ('index', e, ix)
            elif self.peek() == '.':
                self.eat(); m = self.eat()
                e = ('method', e, m, self.args()) if self.peek() == '(' else ('field', e, m)
            else:
                return e
    def primary(self):
        tok = self.eat()
        if tok == '(':
            e = self.expr(); self.eat(')'); return e
        if tok == '{':
            es = [self.expr()]
            while self.peek() == ',': self.eat(); es.append(self.expr())
            self.eat('}'); return ('tuple', es)
        if re.match(r'0[xX]|\d', tok):
            return ('num', int(re.sub(r'(ULL|UL|U|LL|L)$', '', tok), 0))
        if tok.startswith("'"):
            body = tok[1:-1]
            esc = {'\\0': 0, '\\n': 10, '\\t': 9, '\\\\': 92, "\\'": 39}
            return ('num', esc[body] if body in esc else ord(body))
        if tok == '*' and self.peek() in FOREACH:      # *cit inside a translated range loop
            return ('var', self.eat())
        if tok == 'static_cast':
            self.eat('<'); ty = self.eat(); self.eat('>'); self.eat('('); e = self.expr(); self.eat(')')
            if ty == 'std::uint64_t': return e
            if ty in ('std::uint8_t', 'char'): return ('bin', '&', e, ('num', 255))     # bytes are 0..255 in the model
            raise TErr('unsupported cast to %s' % ty)
        if not re.match(r'[A-Za-z_]', tok): raise TErr('unexpected token %r' % tok)
        if self.peek() == '<' and self.peek(2) == '>' and self.peek(3) == '(':     # f<CONST>(..)
            self.eat('<'); targ = self.expr_const(); self.eat('>')
            return ('call', tok, [targ] + self.args())
        if self.peek() == '(':
            return ('call', tok, self.args())
        return ('var', tok)
    def expr_const(self):
        tok = self.eat()
        if re.match(r'0[xX]|\d', tok): return ('num', int(re.sub(r'(ULL|UL|U|LL|L)$', '', tok), 0))
        return ('var', tok)

# ---------------------------------------------------------------- statements
def split_stmts(p):
    """parse statements until '}' or end"""
    out = []
    while p.peek() is not None and p.peek() != '}':
        out.append(stmt(p))
    return out

TYPES = ('std::uint64_t', 'std::uint32_t', 'auto', 'bool', 'char', 'std::string_view')
RBEGIN_OK = [False]   # code_table::rbegin()/rend() are those of m_alphabet (checked in the header)
FOREACH = set()       # iterator variables of the range loops being translated (`*cit` reads the element)
CALLBACK = [None]     # name of the std::function<void(char)> parameter of the function being translated
STRVARS = {}          # variables holding a std::string ('key') or the cursor stack ('stack') with statement-level methods
OUTSTR = [None]       # name of the std::string& parameter that receives the result (modelled as the local `out`)
def stmt(p):
    tok = p.peek()
    if tok == 'assert':
        p.eat(); depth = 0
        while True:
            t = p.eat()
            if t == '(': depth += 1
            elif t == ')':
                depth -= 1
                if depth == 0: break
        p.eat(';'); return ('skip',)
    if tok == 'return':
        p.eat()
        if p.peek() == ';':
            p.eat(); return ('return', None)
        e = p.expr(); p.eat(';'); return ('return', e)
    if tok == 'if':
        p.eat(); p.eat('('); c = p.expr(); p.eat(')'); p.eat('{'); a = split_stmts(p); p.eat('}')
        b = []
        if p.peek() == 'else':
            p.eat(); p.eat('{'); b = split_stmts(p); p.eat('}')
        return ('if', c, a, b)
    if tok == 'while':
        p.eat(); p.eat('('); c = p.expr(); p.eat(')'); p.eat('{'); a = split_stmts(p); p.eat('}')
        return ('while', c, a)
    if tok == 'for':
        p.eat(); p.eat('(')
        if p.peek() == ';':                       # for (; cond; ++x) { body }
            p.eat(); c = p.expr(); p.eat(';'); p.eat('++'); v = p.eat(); p.eat(')'); p.eat('{'); a = split_stmts(p); p.eat('}')
            return ('while', c, a + [('assign', v, '=', ('bin', '+', ('var', v), ('num', 1)))])
        # for (auto it = OBJ.rbegin(); it != OBJ.rend(); ++it) { body }   -- a read-only pass over a member range
        p.eat('auto'); it = p.eat(); p.eat('='); obj = p.eat(); p.eat('.'); p.eat('rbegin'); p.eat('('); p.eat(')'); p.eat(';')
        if [p.eat() for _ in range(7)] != [it, '!=', obj, '.', 'rend', '(', ')']: raise TErr('unsupported for header')
        p.eat(';'); p.eat('++'); p.eat(it); p.eat(')'); p.eat('{')
        FOREACH.add(it); a = split_stmts(p); FOREACH.discard(it); p.eat('}')
        return ('foreach', it, obj, a)
    if tok == 'do':
        p.eat(); p.eat('{'); a = split_stmts(p); p.eat('}'); p.eat('while'); p.eat('(')
        # one post-increment in the condition: the condition sees the old value, the increment happens on both outcomes
        j, depth = p.i, 1
        while depth:
            depth += {'(': 1, ')': -1}.get(p.t[j], 0); j += 1
        seg = p.t[p.i:j - 1]; post = None
        if '++' in seg:
            k = seg.index('++'); v = seg[k - 1]
            if seg.count('++') != 1 or seg.count(v) != 1 or not re.match(r'[A-Za-z_]\w*$', v):
                raise TErr('unsupported use of ++ in %r' % ' '.join(seg))
            del p.t[p.i + k]; post = v
        c = p.expr(); p.eat(')'); p.eat(';')
        return ('dowhile', c, a, post)
    if tok == 'return' and p.peek(1) == ';':
        p.eat(); p.eat(';'); return ('return', None)
    # the rest ends at ';' : desugar one x++ if x occurs once
    j = p.i
    while p.t[j] != ';': j += 1
    seg = p.t[p.i:j]
    post = None
    if '++' in seg:
        k = seg.index('++'); v = seg[k - 1]
        if seg.count('++') != 1 or seg.count(v) != 1 or not re.match(r'[A-Za-z_]\w*$', v):
            raise TErr('unsupported use of ++ in %r' % ' '.join(seg))
        del p.t[p.i + k]; post = ('assign', v, '=', ('bin', '+', ('var', v), ('num', 1)))
    s = simple(p)
    return ('seq', s, post) if post else s

def simple(p):
    if p.peek() == 'const': p.eat()
    if p.peek() in TYPES:
        p.eat()
        if p.peek() == '[':
            p.eat(); names = [p.eat()]
            while p.peek() == ',': p.eat(); names.append(p.eat())
            p.eat(']'); p.eat('='); e = p.expr(); p.eat(';')
            return ('declpair', names, e)
        v = p.eat(); p.eat('='); e = p.expr()
        ds = [('decl', v, e)]
        while p.peek() == ',':
            p.eat(); v = p.eat(); p.eat('='); ds.append(('decl', v, p.expr()))
        p.eat(';')
        out = ds[-1]
        for d in reversed(ds[:-1]): out = ('seq', d, out)
        return out
    t = p.t[p.i:p.i + 12]
    if len(t) > 3 and t[1] == '.' and t[0] != OUTSTR[0] and t[0] in STRVARS:
        X = t[0]
        if t[:6] == [X, '.', 'clear', '(', ')', ';']:
            p.i += 6; return ('assign', X, '=', ('nil',))
        if t[:4] == [X, '.', 'push_back', '('] and STRVARS[X] == 'key':
            p.i += 4; e = p.expr(); p.eat(')'); p.eat(';')
            return ('assign', X, '=', ('append', ('var', X), e))
        if t[:5] == [X, '.', 'push_back', '(', '{'] and STRVARS[X] == 'stack':
            p.i += 5; es = [p.expr()]
            while p.peek() == ',': p.eat(); es.append(p.expr())
            p.eat('}'); p.eat(')'); p.eat(';')
            if len(es) != 3: raise TErr('a cursor has three fields')
            return ('assign', X, '=', ('push', ('var', X), es))
        if t[:6] == [X, '.', 'pop_back', '(', ')', ';'] and STRVARS[X] == 'stack':
            p.i += 6; return ('assign', X, '=', ('pop', ('var', X)))
        if t[:4] == [X, '.', 'resize', '('] and STRVARS[X] == 'key':
            p.i += 4; e = p.expr(); p.eat(')'); p.eat(';')
            return ('assign', X, '=', ('resize', ('var', X), e))
        if t[:6] == [X, '.', 'back', '(', ')', '='] and STRVARS[X] == 'key':
            p.i += 6; e = p.expr(); p.eat(';')
            return ('assign', X, '=', ('setback', ('var', X), e))
    if len(t) > 4 and t[1] == '.' and t[3] == '(' and OUTSTR[0] is None:
        # OBJ.decode(e, [&](char c) { X.push_back(c); });  with X a byte-string variable
        j, depth = p.i + 4, 1
        while depth:
            depth += {'(': 1, ')': -1}.get(p.t[j], 0); j += 1
        seg = p.t[p.i:j + 1] if p.t[j] == ';' else []
        for X in [x for x, k in STRVARS.items() if k == 'key']:
            tailpat = ['[', '&', ']', '(', 'char', 'c', ')', '{', X, '.', 'push_back', '(', 'c', ')', ';', '}', ')', ';']
            if len(seg) > len(tailpat) + 4 and seg[-len(tailpat):] == tailpat and seg[-len(tailpat) - 1] == ',':
                sub = P(seg[4:-len(tailpat) - 1]); e = sub.expr()
                if sub.peek() is not None: raise TErr('unsupported sink call')
                p.i = j + 1
                return ('assign', X, '=', ('appendl', ('var', X), ('method', ('var', seg[0]), seg[2], [e])))
    if OUTSTR[0] is not None:
        X = OUTSTR[0]; t = p.t[p.i:p.i + 12]
        if t[:6] == [X, '.', 'clear', '(', ')', ';']:
            p.i += 6; return ('assign', 'out', '=', ('nil',))
        if t[:4] == [X, '.', 'push_back', '(']:
            p.i += 4; e = p.expr(); p.eat(')'); p.eat(';')
            return ('assign', 'out', '=', ('append', ('var', 'out'), e))
        if t[:12] == ['std::reverse', '(', X, '.', 'begin', '(', ')', ',', X, '.', 'end', '(']:
            p.i += 12; p.eat(')'); p.eat(')'); p.eat(';')
            return ('assign', 'out', '=', ('rev', ('var', 'out')))
        # OBJ.decode(e, [&](char c) { X.push_back(c); });
        seg, j = [], p.i
        if len(t) > 4 and t[1] == '.' and t[3] == '(':
            j, depth = p.i + 4, 1
            while depth:
                depth += {'(': 1, ')': -1}.get(p.t[j], 0); j += 1
            if p.t[j] == ';': seg = p.t[p.i:j + 1]
        tailpat = ['[', '&', ']', '(', 'char', 'c', ')', '{', X, '.', 'push_back', '(', 'c', ')', ';', '}', ')', ';']
        if len(seg) > len(tailpat) + 4 and seg[-len(tailpat):] == tailpat and seg[1] == '.' and seg[3] == '(' and seg[-len(tailpat) - 1] == ',':
            obj, meth = seg[0], seg[2]
            sub = P(seg[4:-len(tailpat) - 1]); e = sub.expr()
            if sub.peek() is not None: raise TErr('unsupported sink call')
            p.i = j + 1
            return ('assign', 'out', '=', ('appendl', ('var', 'out'), ('method', ('var', obj), meth, [e])))
    v = p.eat(); op = p.eat()
    if op == '(' and v == CALLBACK[0]:          # fn(e);  -> the byte is appended to the function's output
        e = p.expr(); p.eat(')'); p.eat(';')
        return ('assign', 'out', '=', ('append', ('var', 'out'), e))
    if op not in ('=', '|=', '^=', '&=', '+=', '-=', '<<=', '>>='): raise TErr('unsupported statement at %s %s' % (v, op))
    e = p.expr(); p.eat(';')
    if op != '=': e = ('bin', op[:-1], ('var', v), e)
    return ('assign', v, '=', e)

def assigned(stmts):
    out = []
    for s in stmts:
        if s[0] == 'assign' and s[1] not in out: out.append(s[1])
        elif s[0] == 'seq':
            for x in assigned([s[1], s[2]]):
                if x not in out: out.append(x)
        elif s[0] == 'if':
            for x in assigned(s[2]) + assigned(s[3]):
                if x not in out: out.append(x)
        elif s[0] in ('while', 'dowhile'):
            for x in assigned(s[2]) + ([s[3]] if s[0] == 'dowhile' and s[3] else []):
                if x not in out: out.append(x)
        elif s[0] == 'foreach':
            for x in assigned(s[3]):
                if x not in out: out.append(x)
    return out
def declared(stmts):
    out = []
    for s in stmts:
        if s[0] == 'decl': out.append(s[1])
        elif s[0] == 'declpair': out += s[1]
        elif s[0] == 'seq': out += declared([s[1], s[2]])
    return out
def has_return(stmts):
    return any(s[0] == 'return' or (s[0] == 'if' and (has_return(s[2]) or has_return(s[3]))) or
               (s[0] in ('while', 'dowhile') and has_return(s[2])) or (s[0] == 'seq' and has_return([s[1], s[2]])) for s in stmts)

# ---------------------------------------------------------------- code generation
class Gen:
    def __init__(self, C, fn, consts):
        self.C, self.fn, self.consts, self.n, self.tparams = C, fn, consts, 0, set()
        self.loop_index = 0
    def fresh(self):
        self.n += 1; return 't%d' % self.n
    def lv(self, v): return 'v_' + v
    def next_fuel(self):
        """FUEL holds one expression per function, or a list with one per loop in source order; a loop that is compiled
        twice (the code after an if that may return is continued in both branches) asks by its position"""
        f = FUEL.get((self.C['cls'], self.fn))
        if f is None: raise TErr('no fuel declared for the loop in %s::%s' % (self.C['cls'], self.fn))
        if isinstance(f, str): return f
        return f[self.loop_index]

    # --- expressions: returns (code, eff, ty)
    def seq(self, parts, build):
        """parts: list of (code, eff, ty); build(list of atom codes) -> (code, eff, ty). binds effectful parts first"""
        binds, atoms = [], []
        for code, eff, ty in parts:
            if eff:
                t = self.fresh(); binds.append((t, code)); atoms.append(t)
            else:
                atoms.append(code)
        code, eff, ty = build(atoms)
        if binds:
            if not eff: code = '(Ok %s)' % code
            for t, c in reversed(binds):
                code = '(do %s <- %s; %s)' % (t, c, code)
            eff = True
        return code, eff, ty
    def to_bool(self, r):
        code, eff, ty = r
        if ty == 'bool': return r
        if ty != 'N': raise TErr('cannot use %s as a condition' % (ty,))
        return self.seq([r], lambda a: ('(negb (N.eqb %s 0))' % a[0], False, 'bool'))
    def to_N(self, r):
        code, eff, ty = r
        if ty == 'N': return r
        if ty != 'bool': raise TErr('cannot use %s as a number' % (ty,))
        return self.seq([r], lambda a: ('(if %s then 1 else 0)' % a[0], False, 'N'))
    def lift(self, code, eff): return code if eff else '(Ok %s)' % code
    def arg(self, e, env, pty):
        r = self.ex(e, env)
        if pty == 'key':
            if r[2] != 'key': raise TErr('a byte string is expected as argument in %s::%s' % (self.C['cls'], self.fn))
            return r
        r = self.to_N(r)
        if pty == 'u8': return self.seq([r], lambda a: ('(N.land %s 255)' % a[0], False, 'N'))
        return r

    def ex(self, e, env):
        k = e[0]
        if k == 'num': return (str(e[1]), False, 'N')
        if k == 'var':
            v = e[1]
            if v in env: return (self.lv(v), False, env[v])
            if v in self.C['members']:
                ty, code = self.C['members'][v]; return ('(%s)' % code, False, ty)
            if v in BIT_CONSTS: return (BIT_CONSTS[v], False, 'N')
            if self.C['cpfx'] and v in self.consts.get(self.C['cpfx'], ()): return (self.C['cpfx'] + v, False, 'N')
            if v in ('true', 'false'): return (v, False, 'bool')
            if v == 'std::nullopt': return ('None', False, 'optN')
            if v == 'UINT64_MAX': return ('mask64', False, 'N')
            raise TErr('%s::%s: unknown name %s' % (self.C['cls'], self.fn, v))
        if k == 'un':
            if e[1] == '~':
                return self.seq([self.to_N(self.ex(e[2], env))], lambda a: ('(not64 %s)' % a[0], False, 'N'))
            return self.seq([self.to_bool(self.ex(e[2], env))], lambda a: ('(negb %s)' % a[0], False, 'bool'))
        if k == '?:':
            c = self.to_bool(self.ex(e[1], env)); a = self.ex(e[2], env); b = self.ex(e[3], env)
            if a[2] != b[2]: a, b = self.to_N(a), self.to_N(b)
            eff = a[1] or b[1]
            def build(at):
                if eff: return ('(if %s then %s else %s)' % (at[0], self.lift(a[0], a[1]), self.lift(b[0], b[1])), True, a[2])
                return ('(if %s then %s else %s)' % (at[0], a[0], b[0]), False, a[2])
            return self.seq([c], build)
        if k == 'bin':
            op = e[1]
            if op in ('and', 'or'):
                l = self.to_bool(self.ex(e[2], env)); r = self.to_bool(self.ex(e[3], env))
                if not r[1]:
                    return self.seq([l], lambda a: ('(%s %s %s)' % ('andb' if op == 'and' else 'orb', a[0], r[0]), False, 'bool'))
                # short circuit: the right operand is only evaluated when needed
                if op == 'and': return self.seq([l], lambda a: ('(if %s then %s else Ok false)' % (a[0], r[0]), True, 'bool'))
                return self.seq([l], lambda a: ('(if %s then Ok true else %s)' % (a[0], r[0]), True, 'bool'))
            if op in ('==', '!=') and e[2][0] == 'method' and e[2][2] == 'compare' and len(e[2][3]) == 3 and e[3] == ('num', 0):
                # std::string::compare(pos, n, sv) == 0  <->  substr(pos, n) equals sv  (pos <= size here)
                X = self.ex(e[2][1], env); a1 = self.to_N(self.ex(e[2][3][0], env)); a2 = self.to_N(self.ex(e[2][3][1], env)); y = self.ex(e[2][3][2], env)
                if X[2] != 'key' or y[2] != 'key': raise TErr('compare on something that is not a byte string')
                f = '(key_eqb (key_substr %s %s %s) %s)' if op == '==' else '(negb (key_eqb (key_substr %s %s %s) %s))'
                return self.seq([X, a1, a2, y], lambda a: (f % (a[0], a[1], a[2], a[3]), False, 'bool'))
            l = self.ex(e[2], env); r = self.ex(e[3], env)
            if op in ('==', '!=') and l[2] == 'bool' and r[2] == 'bool':
                f = '(Bool.eqb %s %s)' if op == '==' else '(negb (Bool.eqb %s %s))'
                return self.seq([l, r], lambda a: (f % (a[0], a[1]), False, 'bool'))
            l, r = self.to_N(l), self.to_N(r)
            cmpf = {'==': '(N.eqb %s %s)', '!=': '(negb (N.eqb %s %s))', '<': '(N.ltb %s %s)', '<=': '(N.leb %s %s)'}
            if op in cmpf: return self.seq([l, r], lambda a: (cmpf[op] % (a[0], a[1]), False, 'bool'))
            if op == '>': return self.seq([l, r], lambda a: ('(N.ltb %s %s)' % (a[1], a[0]), False, 'bool'))
            if op == '>=': return self.seq([l, r], lambda a: ('(N.leb %s %s)' % (a[1], a[0]), False, 'bool'))
            ar = {'+': '(add64 %s %s)', '-': '(sub64 %s %s)', '*': '(mul64 %s %s)', '/': '(N.div %s %s)', '%': '(N.modulo %s %s)',
                  '&': '(N.land %s %s)', '|': '(N.lor %s %s)', '^': '(N.lxor %s %s)'}
            if op in ar:
                const_div = (e[3][0] == 'num' and e[3][1] != 0) or (e[3][0] == 'var' and (e[3][1] in self.tparams or
                             (self.C['cpfx'] and e[3][1] in self.consts.get(self.C['cpfx'], ()))))
                if op in ('/', '%') and not const_div:
                    raise TErr('division by a non-constant in %s::%s' % (self.C['cls'], self.fn))
                return self.seq([l, r], lambda a: (ar[op] % (a[0], a[1]), False, 'N'))
            if op in ('<<', '>>'):
                nm = 'shl64' if op == '<<' else 'shr64'
                if e[3][0] == 'num' and e[3][1] < 64:
                    return self.seq([l, r], lambda a: ('(%s %s %s)' % (nm, a[0], a[1]), False, 'N'))
                return self.seq([l, r], lambda a: ('(%sc %s %s)' % (nm, a[0], a[1]), True, 'N'))
            raise TErr('unsupported operator %s' % op)
        if k == 'nil': return ('([] : list N)', False, 'key')
        if k == 'push':
            st = self.ex(e[1], env); fs = [self.to_N(self.ex(x, env)) for x in e[2]]
            return self.seq([st] + fs, lambda a: ('((mkCur %s %s %s) :: %s)' % (a[1], a[2], a[3], a[0]), False, 'stack'))
        if k == 'pop':
            return self.seq([self.ex(e[1], env)], lambda a: ('(tl %s)' % a[0], False, 'stack'))
        if k == 'resize':
            l = self.ex(e[1], env); n = self.to_N(self.ex(e[2], env))
            return self.seq([l, n], lambda a: ('(key_resize %s %s)' % (a[0], a[1]), False, 'key'))
        if k == 'setback':
            l = self.ex(e[1], env); x = self.to_N(self.ex(e[2], env))
            return self.seq([l, x], lambda a: ('(removelast %s ++ [%s])' % (a[0], a[1]), False, 'key'))
        if k == 'field':
            b = self.ex(e[1], env)
            if b[2] != 'cursor' or e[2] not in ('label', 'kpos', 'npos'): raise TErr('unsupported member access .%s' % e[2])
            return self.seq([b], lambda a: ('(c_%s %s)' % (e[2], a[0]), False, 'N'))
        if k == 'rev':
            return self.seq([self.ex(e[1], env)], lambda a: ('(rev %s)' % a[0], False, 'key'))
        if k == 'appendl':
            l = self.ex(e[1], env); r = self.ex(e[2], env)
            if r[2] != 'key': raise TErr('the sink call must produce bytes')
            return self.seq([l, r], lambda a: ('(%s ++ %s)' % (a[0], a[1]), False, 'key'))
        if k == 'append':
            l = self.ex(e[1], env); x = self.to_N(self.ex(e[2], env))
            return self.seq([l, x], lambda a: ('(%s ++ [%s])' % (a[0], a[1]), False, 'key'))
        if k == 'index':
            b = self.ex(e[1], env); ix = self.to_N(self.ex(e[2], env)); ty = b[2]
            if ty == 'key': return self.seq([b, ix], lambda a: ('(kget %s %s)' % (a[0], a[1]), True, 'N'))
            if ty == 'arr': return self.seq([b, ix], lambda a: ('(aget %s %s)' % (a[0], a[1]), True, 'N'))
            if isinstance(ty, tuple) and ty[0] == 'list':
                return self.seq([b, ix], lambda a: ('(lget %s %s)' % (a[0], a[1]), True, ty[1]))
            if isinstance(ty, tuple) and ty[0] == 'obj':
                sig = SIGS[(ty[1], 'operator[]')]
                return self.seq([b, ix], lambda a: ('(%sget %s %s)' % (PFX[ty[1]], a[0], a[1]), sig['eff'], sig['ret']))
            raise TErr('cannot index a %s' % (ty,))
        if k == 'method':
            b = self.ex(e[1], env); ty = b[2]; m = e[2]
            if ty == 'optN' and m == 'has_value' and not e[3]:
                return self.seq([b], lambda a: ('(match %s with Some _ => true | None => false end)' % a[0], False, 'bool'))
            if ty == 'optN' and m == 'value' and not e[3]:      # undefined behaviour on an empty optional: guarded by has_value
                return self.seq([b], lambda a: ('(match %s with Some y_ => y_ | None => 0 end)' % a[0], False, 'N'))
            if ty == 'key' and m == 'empty' and not e[3]:
                return self.seq([b], lambda a: ('(match %s with [] => true | _ => false end)' % a[0], False, 'bool'))
            if ty == 'key' and m == 'back' and not e[3]:       # undefined on an empty string: guarded by empty() / resize
                return self.seq([b], lambda a: ('(last %s 0)' % a[0], False, 'N'))
            if ty == 'stack' and m == 'empty' and not e[3]:
                return self.seq([b], lambda a: ('(match %s with [] => true | _ => false end)' % a[0], False, 'bool'))
            if ty == 'stack' and m == 'back' and not e[3]:     # the top of the stack (the list's head)
                return self.seq([b], lambda a: ('(hd (mkCur 0 0 0) %s)' % a[0], False, 'cursor'))
            if ty == 'key' and m == 'size' and not e[3]:
                return self.seq([b], lambda a: ('(lenN %s)' % a[0], False, 'N'))
            if ty == 'key' and m == 'substr' and len(e[3]) == 2:
                args = [self.to_N(self.ex(x, env)) for x in e[3]]
                return self.seq([b] + args, lambda a: ('(key_substr %s %s %s)' % (a[0], a[1], a[2]), False, 'key'))
            if ty == 'arr' and m == 'size' and not e[3]:
                return self.seq([b], lambda a: ('(alen %s)' % a[0], False, 'N'))
            if isinstance(ty, tuple) and ty[0] == 'obj' and (ty[1], m) in SIGS:
                sig = SIGS[(ty[1], m)]
                if sig['nargs'] != len(e[3]): raise TErr('arity of %s.%s' % (ty[1], m))
                args = [self.arg(x, env, pt) for x, pt in zip(e[3], sig['ptypes'])]
                return self.seq([b] + args, lambda a: ('(%s%s %s)' % (PFX[ty[1]], gname(m), ' '.join(a)), sig['eff'], sig['ret']))
            raise TErr('%s::%s: unsupported method %s on %s' % (self.C['cls'], self.fn, m, ty))
        if k == 'call':
            f = e[1]
            if f in BIT_TOOLS:
                args = [self.to_N(self.ex(x, env)) for x in e[2]]
                return self.seq(args, lambda a: ('(%s %s)' % (BIT_TOOLS[f], ' '.join(a)), False, 'N'))
            if (self.C['cls'], f) in SIGS:
                sig = SIGS[(self.C['cls'], f)]
                if sig['nargs'] != len(e[2]): raise TErr('arity of %s' % f)
                args = [self.arg(x, env, pt) for x, pt in zip(e[2], sig['ptypes'])]
                selfarg = [] if sig['static'] else ['s']
                return self.seq(args, lambda a: ('(%s%s %s)' % (self.C['pfx'], gname(f), ' '.join(selfarg + a)), sig['eff'], sig['ret']))
            raise TErr('%s::%s: call to unknown function %s' % (self.C['cls'], self.fn, f))
        if k == 'tuple':
            parts = [self.to_N(self.ex(x, env)) for x in e[1]]
            return self.seq(parts, lambda a: ('(%s)' % ', '.join(a), False, 'pair%d' % len(parts)))
        raise TErr('unsupported expression %r' % (e,))

    # --- statements: comp(stmts, env, fin) -> (code, eff); fin(env) -> (code, eff) when the list runs out
    def pat(self, vs): return self.lv(vs[0]) if len(vs) == 1 else "'(%s)" % ', '.join(self.lv(v) for v in vs)
    def tup(self, vs): return self.lv(vs[0]) if len(vs) == 1 else '(%s)' % ', '.join(self.lv(v) for v in vs)
    def bind(self, pat, rhs, rest):
        (rc, re_), (kc, ke) = rhs, rest
        if re_: return ('(do %s <- %s; %s)' % (pat, rc, self.lift(kc, ke)), True)
        return ('(let %s := %s in %s)' % (pat, rc, kc), ke)
    def retval(self, e, env, ret_ty):
        if e is None:
            if ret_ty != 'out': raise TErr('%s::%s: return without a value' % (self.C['cls'], self.fn))
            return ('v_out', False, 'key')
        r = self.ex(e, env)
        if ret_ty == 'bool': return self.to_bool(r)
        if ret_ty == 'N': return self.to_N(r)
        if ret_ty == 'optN':
            if r[2] == 'optN': return r
            return self.seq([self.to_N(r)], lambda a: ('(Some %s)' % a[0], False, 'optN'))
        if ret_ty == 'key' and r[2] != 'key': raise TErr('a byte string is expected as result')
        return r
    def number_loops(self, stmts):
        self.loop_ids = {}
        def walk(ss):
            for s in ss:
                if s[0] in ('while', 'dowhile'):
                    self.loop_ids[id(s)] = len(self.loop_ids); walk(s[2])
                elif s[0] == 'if': walk(s[2]); walk(s[3])
                elif s[0] == 'seq': walk([s[1], s[2]])
                elif s[0] == 'foreach': walk(s[3])
        walk(stmts)
    def comp(self, stmts, env, fin, ret_ty, rw=None):
        """rw: how a returned value is wrapped (None at function level; '(Ret %s)' inside a loop that contains returns)"""
        if not stmts: return fin(env)
        s, rest = stmts[0], stmts[1:]
        k = s[0]
        if id(s) in getattr(self, 'loop_ids', {}): self.loop_index = self.loop_ids[id(s)]
        if k == 'foreach':
            # a read-only pass over the alphabet of a code_table, last byte first (rbegin .. rend)
            o = self.ex(('var', s[2]), env)
            if o[2] != CT or not RBEGIN_OK[0]: raise TErr('range loop over something that is not a code_table alphabet')
            vs = [v for v in assigned(s[3]) if v in env]
            if not vs: raise TErr('range loop without state')
            env2 = dict(env); env2[s[1]] = 'N'
            b = self.comp(s[3], env2, lambda en: (self.tup(vs), False), None)
            code = '(foreach_res (rev (alist (ct_alpha %s))) (fun %s %s => %s) %s)' % (o[0], self.pat(vs), self.lv(s[1]), self.lift(*b), self.tup(vs))
            return self.bind(self.pat(vs), (code, True), self.comp(rest, env, fin, ret_ty, rw))
        if k == 'skip': return self.comp(rest, env, fin, ret_ty, rw)
        if k == 'seq': return self.comp([s[1], s[2]] + rest, env, fin, ret_ty, rw)
        if k == 'return':
            if ret_ty is None: raise TErr('%s::%s: return inside a loop or a joined branch' % (self.C['cls'], self.fn))
            r = self.retval(s[1], env, ret_ty)
            if rw: r = self.seq([r], lambda a: (rw % a[0], False, 'ctl'))
            return (r[0], r[1])
        if k in ('decl', 'assign'):
            r = self.ex(s[2] if k == 'decl' else s[3], env)
            if k == 'assign' and s[1] not in env: raise TErr('assignment to unknown variable %s' % s[1])
            if r[2] not in ('N', 'bool', 'key', 'optN', 'stack'): raise TErr('unsupported local of type %s' % (r[2],))
            env2 = dict(env); env2[s[1]] = r[2]
            return self.bind(self.lv(s[1]), (r[0], r[1]), self.comp(rest, env2, fin, ret_ty, rw))
        if k == 'declpair':
            r = self.ex(s[2], env)
            if r[2] != 'pair%d' % len(s[1]): raise TErr('structured binding of a %s' % (r[2],))
            env2 = dict(env)
            for v in s[1]: env2[v] = 'N'
            return self.bind("'(%s)" % ', '.join(self.lv(v) for v in s[1]), (r[0], r[1]), self.comp(rest, env2, fin, ret_ty, rw))
        if k == 'if':
            c = self.to_bool(self.ex(s[1], env))
            ra, rb = has_return(s[2]), has_return(s[3])
            if ra or rb:
                # branches that return: the rest of the function continues the branch that does not
                a = self.comp(s[2] + ([] if self.always_returns(s[2]) else rest), env, fin, ret_ty, rw)
                b = self.comp(s[3] + ([] if self.always_returns(s[3]) else rest), env, fin, ret_ty, rw)
                eff = a[1] or b[1]
                body = '(if %%s then %s else %s)' % ((self.lift(*a), self.lift(*b)) if eff else (a[0], b[0]))
                r = self.seq([c], lambda at: (body % at[0], eff, 'x'))
                return (r[0], r[1])
            vs = [v for v in assigned([s]) if v in env]
            if not vs: raise TErr('if without effect')
            y = lambda en: (self.tup(vs), False)
            a = self.comp(s[2], env, y, None); b = self.comp(s[3], env, y, None)
            eff = a[1] or b[1]
            body = '(if %%s then %s else %s)' % ((self.lift(*a), self.lift(*b)) if eff else (a[0], b[0]))
            r = self.seq([c], lambda at: (body % at[0], eff, 'x'))
            return self.bind(self.pat(vs), (r[0], r[1]), self.comp(rest, env, fin, ret_ty, rw))
        if k == 'dowhile' or (k == 'while' and has_return(s[2])):
            # a loop that can return: every iteration yields Next state | Done state | Ret value (AccessLib.loop_ctl)
            hasret = has_return(s[2])
            if hasret and ret_ty is None: raise TErr('%s::%s: nested loop with return' % (self.C['cls'], self.fn))
            vs = [v for v in assigned([s]) if v in env]
            if not vs: raise TErr('loop without state')
            fuel = self.next_fuel()
            c = self.to_bool(self.ex(s[1], env))
            tup = self.tup(vs)
            if k == 'while':
                inner = '(Ret %s)' % (rw if rw else '%s')
                body = self.comp(s[2], env, lambda en: ('(Next %s)' % tup, False), ret_ty, inner)
                it = self.seq([c], lambda a: ('(if %s then %s else Ok (Done %s))' % (a[0], self.lift(*body), tup), True, 'ctl'))
            else:
                def after(en):
                    inc = '(let %s := (add64 %s 1) in ' % (self.lv(s[3]), self.lv(s[3])) if s[3] else '('
                    r = self.seq([c], lambda a: ('%sif %s then Next %s else Done %s)' % (inc, a[0], tup, tup), False, 'ctl'))
                    return (r[0], r[1])
                it = self.comp(s[2], env, after, ret_ty, '(Ret %s)' % (rw if rw else '%s'))
                it = (self.lift(*it), True, 'ctl')
            code = '(%s %s (fun %s => %s) %s)' % ('loop_ctl' if hasret else '@loop_ctl _ Datatypes.unit', fuel, self.pat(vs), it[0], tup)
            k_rest = self.comp(rest, env, fin, ret_ty, rw)
            rr = 'Ok r_' if hasret else 'Fault BadState'      # r_ was wrapped where it was returned
            return ('(do o_ <- %s; match o_ with inr r_ => %s | inl %s => %s end)' % (
                code, rr, ("%s" % self.pat(vs)).lstrip("'"), self.lift(*k_rest)), True)
        if k == 'while':
            vs = [v for v in assigned(s[2]) if v in env]
            if not vs: raise TErr('loop without state')
            fuel = self.next_fuel()
            c = self.to_bool(self.ex(s[1], env))
            b = self.comp(s[2], env, lambda en: (self.tup(vs), False), None)
            code = '(while_res %s (fun %s => %s) (fun %s => %s) %s)' % (fuel, self.pat(vs), self.lift(c[0], c[1]),
                                                                        self.pat(vs), self.lift(*b), self.tup(vs))
            return self.bind(self.pat(vs), (code, True), self.comp(rest, env, fin, ret_ty, rw))
        raise TErr('unsupported statement %r' % (k,))
    def always_returns(self, stmts):
        if not stmts: return False
        l = stmts[-1]
        return l[0] == 'return' or (l[0] == 'if' and self.always_returns(l[2]) and self.always_returns(l[3]))

# ---------------------------------------------------------------- driver
RET = r'(std::uint64_t|std::uint8_t|char|bool|void|std::string_view|std::tuple<std::uint64_t,\s*std::uint64_t>|std::optional<std::uint64_t>)'
def find_function(src, name, cls):
    """-> dict(static, ret, args [(kind, name)], body, tparam) of the definition of `name` with the fewest parameters"""
    nm = re.escape(name)
    best = None
    for m in re.finditer(r'(?:template\s*<\s*std::uint64_t\s+(\w+)\s*>\s*)?((?:static\s+|inline\s+)*)' + RET + r'\s+%s\s*\(' % nm, src):
        j, depth = m.end(), 1
        while depth:
            depth += {'(': 1, ')': -1}.get(src[j], 0); j += 1
        params = src[m.end():j - 1]
        m2 = re.match(r'\s*(const\s*)?\{', src[j:])
        if not m2: continue
        b0 = j + m2.end(); k, depth = b0, 1
        while depth:
            depth += {'{': 1, '}': -1}.get(src[k], 0); k += 1
        args, cb, outs = [], None, None
        if m.group(1): args.append(('N', m.group(1)))
        ok = True
        for a in [x.strip() for x in re.split(r',(?![^<]*>)', params) if x.strip()]:
            ty, an = a.rsplit(None, 1) if ' ' in a else (a, '')
            an = an.lstrip('&*'); ty = ty.replace('const ', '').strip().rstrip('&').strip()
            if ty == 'std::uint64_t': args.append(('N', an))
            elif ty in ('std::uint8_t', 'char'): args.append(('u8', an))
            elif ty == 'std::string_view': args.append(('key', an))
            elif ty == 'std::function<void(char)>': cb = an
            elif ty == 'std::string' and '&' in a and 'const' not in a: outs = an     # the result is written into it
            elif ty == 'prefix_iterator*' or (ty == 'prefix_iterator' and a.replace(' ', '').find('prefix_iterator*') >= 0): args.append(('pfxit', an))
            elif ty == 'predictive_iterator*' or (ty == 'predictive_iterator' and a.replace(' ', '').find('predictive_iterator*') >= 0): args.append(('predit', an))
            else: ok = False
        if not ok: continue
        d = dict(static='static' in m.group(2), ret=m.group(3), args=args, body=src[b0:k - 1], tparam=m.group(1), cb=cb, outs=outs)
        if best is None or len(args) < len(best['args']): best = d
    if best is None: raise TErr('%s::%s: no translatable definition found' % (cls, name))
    return best

def class_consts(src):
    return set(re.findall(r'static\s+constexpr\s+std::u?int\d+_t\s+(\w+)\s*=', src))

def own_body(src, cls):
    """the body of class `cls` with the bodies of nested classes / structs removed"""
    m = re.search(r'\bclass\s+%s\s*(?:final\s*)?\{' % re.escape(cls), src)
    if not m: raise TErr('class %s not found' % cls)
    def block_end(i):
        depth = 1
        while depth:
            depth += {'{': 1, '}': -1}.get(src[i], 0); i += 1
        return i
    body = src[m.end():block_end(m.end()) - 1]
    out, i = [], 0
    for n in re.finditer(r'\b(?:class|struct)\s+\w+\s*\{', body):
        if n.start() < i: continue
        out.append(body[i:n.start()])
        depth, j = 1, n.end()
        while depth:
            depth += {'{': 1, '}': -1}.get(body[j], 0); j += 1
        i = j
    out.append(body[i:])
    return ''.join(out)

def emit_class(C, inc, L):
    ct = re.sub(r'//[^\n]*', '', open(os.path.join(inc, 'xcdat', 'code_table.hpp')).read())
    RBEGIN_OK[0] = bool(re.search(r'rbegin\(\)\s*const\s*\{\s*return\s+m_alphabet\.rbegin\(\);\s*\}', ct) and
                        re.search(r'rend\(\)\s*const\s*\{\s*return\s+m_alphabet\.rend\(\);\s*\}', ct))
    src = open(os.path.join(inc, 'xcdat', C['file'])).read()
    src = re.sub(r'//[^\n]*', '', src)
    src = own_body(src, C['cls'])
    consts = {C['cpfx']: class_consts(src)} if C['cpfx'] else {}
    L.append('(* ---- %s ---- *)' % C['cls'])
    for fn in C['funcs']:
        f = find_function(src, fn, C['cls'])
        rty = f['ret']
        ret = {'bool': 'bool', 'void': 'out', 'std::string_view': 'key', 'std::optional<std::uint64_t>': 'optN'}.get(rty, 'pair2' if rty.startswith('std::tuple') else 'N')
        if (ret == 'out') != ((f['cb'] is not None) != (f['outs'] is not None)):
            raise TErr('%s::%s: a void function needs a std::function<void(char)> or a std::string& parameter' % (C['cls'], fn))
        g = Gen(C, fn, consts)
        if f['tparam']: g.tparams.add(f['tparam'])     # only ever instantiated with non-zero literals
        CALLBACK[0] = f['cb']; OUTSTR[0] = f['outs']
        env = {a: ('key' if kd == 'key' else 'N') for kd, a in f['args'] if kd not in ('pfxit', 'predit')}
        text, pro, rw0, itrec = f['body'], '', None, None
        STRVARS.clear()
        for kd, a in f['args']:
            if kd in ('pfxit', 'predit'):      # the iterator's fields become locals; every return also yields the updated iterator
                text = re.sub(r'\b%s\s*->\s*' % re.escape(a), a + '__', text)
                if kd == 'pfxit':
                    fields = [('m_key', 'key', 'p_key'), ('m_id', 'N', 'p_id'), ('m_kpos', 'N', 'p_kpos'), ('m_npos', 'N', 'p_npos'),
                              ('is_beg', 'bool', 'p_beg'), ('is_end', 'bool', 'p_end')]
                    mk, ob, itrec = 'mkPfx', 'p_obj', 'pfx_it'
                else:
                    fields = [('m_key', 'key', 'd_key'), ('m_id', 'N', 'd_id'), ('m_decoded', 'key', 'd_dec'), ('m_stack', 'stack', 'd_stack'),
                              ('is_beg', 'bool', 'd_beg'), ('is_end', 'bool', 'd_end')]
                    mk, ob, itrec = 'mkPred', 'd_obj', 'pred_it'
                    STRVARS['%s__m_decoded' % a] = 'key'; STRVARS['%s__m_stack' % a] = 'stack'
                for fl, ty, acc in fields:
                    env['%s__%s' % (a, fl)] = ty
                    pro += '(let v_%s__%s := %s v_%s in ' % (a, fl, acc, a)
                rw0 = '((%s (%s v_%s) %s), %%s)' % (mk, ob, a, ' '.join('v_%s__%s' % (a, fl) for fl, _, _ in fields))
        body = split_stmts(P(tokenize(text)))
        g.number_loops(body)
        if ret == 'out':
            env['out'] = 'key'
            code, eff = g.comp(body, env, lambda en: ('v_out', False), ret)
            if f['outs'] is None:
                code = '(let v_out := ([] : list N) in %s)' % code      # a sink: the bytes passed to it, in order
        else:
            def nofin(en): raise TErr('%s::%s: function body without return' % (C['cls'], fn))
            code, eff = g.comp(body, env, nofin, ret, rw0)
            if rw0:
                code = pro + g.lift(code, eff) + ')' * pro.count('(let '); eff = True
        if rty in ('std::uint8_t', 'char'):      # the result is converted to one byte
            code = ('(do r_ <- %s; Ok (N.land r_ 255))' % code) if eff else '(N.land %s 255)' % code
        SIGS[(C['cls'], fn)] = dict(eff=eff, ret='key' if ret == 'out' else ret, nargs=len(f['args']), static=f['static'],
                                    ptypes=[kd for kd, _ in f['args']])
        cty = {'bool': 'bool', 'N': 'N', 'pair2': '(N * N)', 'optN': '(option N)', 'key': '(list N)', 'out': '(list N)'}[ret]
        if rw0: cty = '(%s * %s)' % (itrec, cty)
        pty = {'key': 'list N', 'pfxit': 'pfx_it', 'predit': 'pred_it'}
        params = ('' if f['static'] else '(s : %s) ' % C['rec']) + ' '.join('(v_%s : %s)' % (a, pty.get(kd, 'N')) for kd, a in f['args'])
        if ret == 'out' and f['outs'] is not None:
            params += ' (v_out : list N)'      # the caller's buffer, with whatever it held before
        L.append('Definition %s%s %s : %s :=\n  %s.' % (C['pfx'], gname(fn), params.strip(), ('res %s' % cty) if eff else cty, code))
    L.append('')

def write(out, L):
    text = '\n'.join(L)
    old = open(out).read() if os.path.exists(out) else None
    if old != text:
        open(out, 'w').write(text); print('translator: wrote', out)
    else:
        print('translator: unchanged', out)

def main():
    inc, out = sys.argv[1], sys.argv[2]
    out2 = sys.argv[3] if len(sys.argv) > 3 else None
    L = ['(* GENERATED by translator/access.py from %s/xcdat/*.hpp -- do not edit *)' % inc,
         'From X Require Import Base Arr Consts BitToolsSpec BitToolsGen BitVector CompactVector Dac Tail Trie AccessLib.',
         'Local Open Scope N_scope.', '']
    def one(C, LL):
        """a class the translator cannot handle is left out (with the reason): only the proofs that mention its
        functions lose their footing, the other classes stay tied"""
        mark = len(LL)
        try:
            emit_class(C, inc, LL)
        except TErr as e:
            del LL[mark:]
            for k in [k for k in SIGS if k[0] == C['cls']]: del SIGS[k]
            LL.append('(* class %s NOT TRANSLATED: %s *)' % (C['cls'], e)); LL.append('')
            print('translator/access.py: class %s not translated: %s' % (C['cls'], e))
    for C in CLASSES:
        one(C, L)
    write(out, L)
    if out2:
        L2 = ['(* GENERATED by translator/access.py from %s/xcdat/trie.hpp -- do not edit *)' % inc,
              'From X Require Import Base Arr Consts BitToolsSpec BitToolsGen BitVector CompactVector Dac Tail Trie Spec AccessLib AccessGen AccessDispatch.',
              'Local Open Scope N_scope.', '']
        one(TRIE, L2)
        write(out2, L2)

if __name__ == '__main__':
    main()
