#!/usr/bin/env python3
"""Regenerate coq/BitToolsGen.v from /repo/include/xcdat/bit_tools.hpp.
Every inline function of namespace xcdat::bit_tools is parsed (straight-line code over
>> << & | ^ ~ + - * == ?: casts, calls, one table lookup, `if (c) { return e; }` guards) and emitted
as a Gallina definition over N with explicit 64-bit wrap (Base.add64 ...). Both arms of
`#ifdef __SSE4_2__/__BMI2__ ... #else ... #endif` are emitted: <f> is the portable (#else) arm and
<f>_intr the intrinsic arm, with the builtins mapped to the specification functions of BitToolsSpec.v.
Usage: bittools.py <repo_include_dir> <out.v>. Part of the trusted base (DESIGN.md section 4.3)."""
import re, sys, os

TOK = re.compile(r'\s*(0[xX][0-9a-fA-F]+(?:ULL|UL|U|LL|L)?|\d+(?:ULL|UL|U|LL|L)?|[A-Za-z_][A-Za-z_0-9:]*|<<=|>>=|\|=|\^=|&=|<<|>>|==|!=|[-+*/%|&^~?:()\[\],;={}<>!])')

def tokenize(s):
    out, i = [], 0
    s = s.strip()
    while i < len(s):
        m = TOK.match(s, i)
        if not m:
            raise SystemExit('translator: cannot tokenize at %r' % s[i:i+40])
        out.append(m.group(1)); i = m.end()
        while i < len(s) and s[i].isspace(): i += 1
    return out

INTR = {'__builtin_popcountll': 'popcnt_spec', '__builtin_clzll': 'clz_spec',
        '_tzcnt_u64': 'tzcnt_spec', '_pdep_u64': 'pdep_spec'}

class P:
    def __init__(self, toks, funcs): self.t, self.i, self.funcs = toks, 0, funcs
    def peek(self): return self.t[self.i] if self.i < len(self.t) else None
    def eat(self, x=None):
        tok = self.peek()
        if x is not None and tok != x: raise SystemExit('translator: expected %r got %r near %r' % (x, tok, self.t[self.i-3:self.i+3]))
        self.i += 1; return tok
    # precedence climbing, C order
    def expr(self): return self.ternary()
    def ternary(self):
        c = self.bor()
        if self.peek() == '?':
            self.eat(); a = self.expr(); self.eat(':'); b = self.ternary()
            return '(if %s then %s else %s)' % (c, a, b)
        return c
    def binl(self, sub, ops):
        l = sub()
        while self.peek() in ops:
            op = self.eat(); r = sub(); l = ops[op] % (l, r)
        return l
    def bor(self):  return self.binl(self.bxor, {'|': '(N.lor %s %s)'})
    def bxor(self): return self.binl(self.band, {'^': '(N.lxor %s %s)'})
    def band(self): return self.binl(self.eq, {'&': '(N.land %s %s)'})
    def eq(self):   return self.binl(self.shift, {'==': '(N.eqb %s %s)', '!=': '(negb (N.eqb %s %s))'})
    def shift(self):return self.binl(self.add, {'<<': '(shl64 %s %s)', '>>': '(shr64 %s %s)'})
    def add(self):  return self.binl(self.mul, {'+': '(add64 %s %s)', '-': '(sub64 %s %s)'})
    def mul(self):  return self.binl(self.unary, {'*': '(mul64 %s %s)'})
    def unary(self):
        if self.peek() == '~': self.eat(); return '(not64 %s)' % self.unary()
        return self.postfix()
    def postfix(self):
        tok = self.eat()
        if tok == '(':
            e = self.expr(); self.eat(')'); return e
        if re.match(r'0[xX]|\d', tok):
            return str(int(re.sub(r'(ULL|UL|U|LL|L)$', '', tok), 0))
        if tok == 'static_cast':
            self.eat('<'); ty = self.eat(); self.eat('>'); self.eat('('); e = self.expr(); self.eat(')')
            bits = {'std::uint64_t': None, 'std::uint8_t': 255}[ty]
            return e if bits is None else '(N.land %s %d)' % (e, bits)
        if self.peek() == '(':
            self.eat(); args = []
            if self.peek() != ')':
                args.append(self.expr())
                while self.peek() == ',': self.eat(); args.append(self.expr())
            self.eat(')')
            name = INTR.get(tok, tok)
            if name == tok and tok not in self.funcs:
                raise SystemExit('translator: call to unknown function %s' % tok)
            return '(%s %s)' % (name, ' '.join(args))
        if self.peek() == '[':
            self.eat(); e = self.expr(); self.eat(']')
            return '(tbl_get %s_tbl %s)' % (tok, e)
        return tok

def stmts(p, k_end):
    """translate statements until '}' ; returns a Gallina expression"""
    tok = p.peek()
    if tok == '}' or tok is None:
        raise SystemExit('translator: function body without return')
    if tok == 'return':
        p.eat(); e = p.expr(); p.eat(';'); return e
    if tok == 'if':
        p.eat(); p.eat('('); c = p.expr(); p.eat(')'); p.eat('{'); a = stmts(p, None); p.eat('}')
        return '(if %s then %s else %s)' % (c, a, stmts(p, None))
    if tok == 'const':
        p.eat(); p.eat()  # type
        v = p.eat(); p.eat('='); e = p.expr(); p.eat(';')
        return '(let %s := %s in %s)' % (v, e, stmts(p, None))
    v = p.eat(); op = p.eat()
    e = p.expr(); p.eat(';')
    if op == '=': rhs = e
    elif op == '|=': rhs = '(N.lor %s %s)' % (v, e)
    elif op == '^=': rhs = '(N.lxor %s %s)' % (v, e)
    elif op == '&=': rhs = '(N.land %s %s)' % (v, e)
    else: raise SystemExit('translator: unsupported assignment %s' % op)
    return '(let %s := %s in %s)' % (v, rhs, stmts(p, None))

def split_arms(body):
    """returns (portable_body, intrinsic_body or None)"""
    m = re.search(r'#ifdef\s+(\w+)\s*\n(.*?)#else\s*\n(.*?)#endif', body, flags=re.S)
    if not m:
        return body, None
    pre, post = body[:m.start()], body[m.end():]
    return pre + m.group(3) + post, pre + m.group(2) + post

def main():
    inc, out = sys.argv[1], sys.argv[2]
    src = open(os.path.join(inc, 'xcdat', 'bit_tools.hpp')).read()
    src = re.sub(r'//[^\n]*', '', src)
    funcs = []
    # inline <ret> name(args) { body }   -- bodies contain no nested braces except `if (..) { return ..; }`
    for m in re.finditer(r'inline\s+std::u?int\d+_t\s+(\w+)\s*\(([^)]*)\)\s*\{', src):
        name, args = m.group(1), m.group(2)
        depth, j = 1, m.end()
        while depth:
            if src[j] == '{': depth += 1
            elif src[j] == '}': depth -= 1
            j += 1
        body = src[m.end():j-1]
        argn = [a.split()[-1] for a in args.split(',')]
        ret8 = 'uint8_t' in src[m.start():m.end()].split(name)[0]
        funcs.append((name, argn, body, ret8))
    names = [f[0] for f in funcs]
    L = ['(* GENERATED by translator/bittools.py from %s/xcdat/bit_tools.hpp -- do not edit *)' % inc,
         'From X Require Import Base Arr Consts BitToolsSpec.', 'Local Open Scope N_scope.', '',
         'Definition debruijn64_mapping_tbl := of_list debruijn64_mapping_list.',
         'Definition select_in_byte_tbl := of_list select_in_byte_list.',
         'Definition tbl_get (t : arr N) (i : N) : N := match get t i with Some v => v | None => 0 end.', '']
    for name, argn, body, ret8 in funcs:
        port, intr = split_arms(body)
        for suffix, b in (('', port), ('_intr', intr)):
            if b is None:
                # no #ifdef: the intrinsic configuration runs the same code, but calling the _intr callees
                if suffix == '_intr' or True:
                    pass
            if b is None: continue
            p = P(tokenize(b), names)
            e = stmts(p, None)
            if suffix == '_intr':
                for n in names:
                    e = re.sub(r'\(%s ' % n, '(%s_intr ' % n, e)
            if ret8: e = '(N.land %s 255)' % e
            L.append('Definition %s%s (%s : N) : N :=\n  %s.' % (name, suffix, ' '.join(argn), e))
        if intr is None:
            p = P(tokenize(body), names); e = stmts(p, None)
            for n in names:
                e = re.sub(r'\(%s ' % n, '(%s_intr ' % n, e)
            if ret8: e = '(N.land %s 255)' % e
            L.append('Definition %s_intr (%s : N) : N :=\n  %s.' % (name, ' '.join(argn), e))
        L.append('')
    text = '\n'.join(L)
    old = open(out).read() if os.path.exists(out) else None
    if old != text:
        open(out, 'w').write(text); print('translator: wrote', out)
    else:
        print('translator: unchanged', out)

if __name__ == '__main__':
    main()
